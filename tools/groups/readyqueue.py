"""C05 — the dispatcher never loses or duplicates a scheduled actor.

Design:     specs/ReadyQueue/ReadyQueue.tla: actor/ready_queue.go at atomic-step granularity (local rings, global ring
            with growth, stealHalf with ordered locks, parked counter + condition variable, close), checked exhaustively
            by TLC: conservation, ring/mirror/parked bookkeeping, no sleeping worker while work is queued, no deadlock,
            global FIFO across grow; with fairness: queued work is eventually taken, close makes every worker exit.
spec->code: walks covering every edge of the model's state graph (puppet-reproducible schedules) are executed step by
            step on a REAL readyQueue through the verifhook gates in ready_queue.go; sequential macro-operation
            behaviours with the real ring capacities (256 / 64) cover overflow, growth and multi-item steals.
code->spec: the recorded events of those replays and of free-running runs (harness workers calling take; the real
            dispatcher with its worker.run goroutines) are judged by TLC with Trace_RQMon.tla (the contract only);
            the step logs are re-executed by Trace_ReadyQueue.tla / Trace_RQSeq.tla (conformance; rejection = drift).
"""
import json, os, re, concurrent.futures, threading
import vlib, tlagraph

PROPERTIES = ["C05"]
SPEC = "ReadyQueue"

def monitor(ctx, lock, label, trace, timeout=1500):
    """Run the property monitor on an event log. Returns (lines, [(line, kind, detail)])."""
    r = ctx.tlc(SPEC, "Trace_RQMon.cfg", dfs=True, files={"trace.ndjson": trace}, timeout=timeout, heap="6g", name="mon-" + label)
    with open(trace) as f:
        n = sum(1 for x in f if x.strip())
    if r.depth != n + 1:
        raise vlib.Infra("monitor did not consume the whole trace %s (%d of %d)" % (label, r.depth - 1, n))
    tup = vlib.tuples(r.out, "MISMATCH")
    if len(tup) != r.out.count('"MISMATCH"') or any(len(t) < 3 or not isinstance(t[0], int) for t in tup):
        raise vlib.Infra("monitor output of %s could not be parsed reliably (%d tuples, %d markers)"
                         % (label, len(tup), r.out.count('"MISMATCH"')))
    mism = [(t[0], str(t[1]), " ".join(str(x) for x in t[2:])) for t in tup]
    return n, mism


def cut_history(ctx, trace, line, name):
    rows = vlib.read_ndjson(trace)
    start = max(j for j in range(line) if rows[j]["ev"] in ("New", "End"))
    end = next((j for j in range(line, len(rows)) if rows[j]["ev"] in ("New", "End")), len(rows))
    p = ctx.tmp(name + ".ndjson")
    vlib.write_ndjson(p, rows[start:end + 1])
    return p


def walks_to_behaviours(g, walks):
    beh = []
    for w in walks:
        steps = []
        for s in w:
            if s["a"] == "Done":
                continue
            wk = sorted(re.findall(r'"(w\d+)"', g.state(s["to"]).get("woken", "")))
            steps.append({"a": s["a"], "args": s["args"], "wk": wk})
        beh.append(steps)
    return beh


def counterexample_steps(r):
    """[(action, [args], woken-after)] of a TLC error trace (this TLC prints  State n: <Action("t") line ...>)."""
    out = []
    txt = r.counterexample()
    for m in re.finditer(r'State \d+: <(\w+)(?:\((.*?)\))? line[^\n]*\n(.*?)(?=\nState \d+:|\Z)', txt, re.S):
        name, args, body = m.group(1), m.group(2) or "", m.group(3)
        st = tlagraph.parse_state(body)
        out.append((name, re.findall(r'"(\w+)"', args), sorted(re.findall(r'"(w\d+)"', st.get("woken", "")))))
    return out


def witnesses(ctx):
    """Fixed witness schedules = TLC counterexamples of defective designs (Defects branches of ReadyQueue.tla). They are
    always replayed on the real code: a code base that has the defect follows the counterexample and the monitor sees the
    consequence; the correct code leaves the schedule at the defective step (drift, expected) and finishes normally."""
    # (a) puppet-replayable (Handoff) counterexample: atomic-step walk
    r = ctx.tlc(SPEC, "Wit_LPopNoRecheck.cfg", module="MC_ReadyQueue", timeout=600, expect_fail=True, workers=1, name="wit-lpop")
    if r.violated != "NotHidden":
        raise vlib.Infra("Wit_LPopNoRecheck.cfg no longer yields a NotHidden counterexample (%s)" % r.violated)
    walk = [{"a": a, "args": args, "wk": wk} for a, args, wk in counterexample_steps(r)]
    if len(walk) < 10 or not any(s["a"] == "StealStore2" for s in walk):
        raise vlib.Infra("could not parse the LPopNoRecheck counterexample")
    # (b) counterexample that needs pushes between a Signal and the wake-up (not gateable): operation-level projection
    r = ctx.tlc(SPEC, "Wit_SignalOnFirstOnly.cfg", module="MC_ReadyQueue", timeout=600, expect_fail=True, workers=1, name="wit-signal")
    if r.violated != "NoSleepWhileGlobalWork":
        raise vlib.Infra("Wit_SignalOnFirstOnly.cfg no longer yields a NoSleepWhileGlobalWork counterexample (%s)" % r.violated)
    ops = []
    for a, args, wk in counterexample_steps(r):
        if a == "TakeCall":
            ops.append({"op": "take", "t": args[0], "n": 0})
        elif a == "PushCall":
            if ops and ops[-1]["op"] == "push":
                ops[-1]["n"] += 1
            else:
                ops.append({"op": "push", "t": args[0], "n": 1})
        elif a == "Wake" and ops and ops[-1]["op"] == "push":
            ops.append({"op": "sync", "t": args[0], "n": 0})     # pushes after a wake-up form a new burst
    ops = [o for o in ops if o["op"] != "sync" or True]
    if not any(o["op"] == "push" and o["n"] >= 2 for o in ops) or sum(o["op"] == "take" for o in ops) < 2:
        raise vlib.Infra("could not project the SignalOnFirstOnly counterexample: %s" % ops)
    return walk, ops


def run(ctx, pid):
    quick = ctx.quick
    rng = ctx.rng
    lock = threading.Lock()
    exe = ctx.build("readyqueue")
    pool = concurrent.futures.ThreadPoolExecutor(max_workers=6)
    total = {"hist": 0, "walks": 0, "steps": 0, "drift": 0, "events": 0}
    samples, notes = [], []
    mismatches = []     # (source, trace, line, kind, detail)

    # ------------------------------------------------------------------ 1. design level
    # (quick: the base configuration is checked by Live_ReadyQueue.cfg, which carries the invariants too)
    mc_cfgs = ["MC_RQ_2p.cfg", "MC_RQ_ovf.cfg"] if quick else \
              ["MC_ReadyQueue.cfg", "MC_RQ_2p.cfg", "MC_RQ_ovf.cfg", "MC_RQ_3w.cfg", "MC_RQ_steal.cfg"]
    f_mc = [pool.submit(ctx.tlc_must_hold, SPEC, c, module="MC_ReadyQueue", timeout=600 if quick else 2400, workers=2)
            for c in mc_cfgs]

    def heavy():      # the large configurations one after the other (at most one heavy TLC run of this check at a time)
        return [ctx.tlc_must_hold(SPEC, c, module="MC_ReadyQueue", timeout=3000, workers=6, heap="12g")
                for c in ("MC_RQ_t.cfg", "MC_RQ_t3.cfg", "MC_RQ_t4.cfg")]
    if not quick:
        f_mc.append(pool.submit(heavy))
    f_live = pool.submit(ctx.tlc_must_hold, SPEC, "Live_ReadyQueue.cfg" if quick else "Live_RQ_t.cfg", module="MC_ReadyQueue",
                         timeout=600 if quick else 2400, workers=2)
    f_def = {d: pool.submit(ctx.tlc, SPEC, "Def_%s.cfg" % d, module="MC_ReadyQueue", timeout=600, expect_fail=True, workers=2)
             for d in (() if quick else ("NoSignal", "StealNoAdvance", "ParkedLeak", "ParkNoRecheck"))}

    # ------------------------------------------------------------------ 2. free-running histories
    def stress(n, seed):
        sts, files = {}, []
        for i, mode in enumerate(("rq", "disp")):
            with lock:
                t = ctx.tmp("stress-%s.ndjson" % mode)
            p = ctx.run([exe, "stress", mode, "0", str(n), str(seed + i), t], timeout=900)
            sts[mode] = json.loads(p.stdout.strip().splitlines()[-1])
            files.append(t)
        with lock:
            t = ctx.tmp("stress-all.ndjson")
        with open(t, "w") as out:
            for fn in files:
                with open(fn) as f:
                    out.write(f.read())
        nl, mism = monitor(ctx, lock, "stress", t, timeout=2400)
        return sts, t, nl, mism

    f_stress = pool.submit(stress, 60 if quick else 500, ctx.seed * 100)

    # ------------------------------------------------------------------ 3. spec -> code: edge cover, puppet replay
    def replay(tag, nworkers, nsel):
        d = ctx.tlc(SPEC, "Dump_RQ_%s.cfg" % tag, module="MC_ReadyQueue", timeout=900, dump_dot=True, workers=2, name="dump-" + tag)
        g = tlagraph.Graph.load(os.path.join(d.rundir, "graph.dot"))
        walks, left = g.edge_cover(rng)
        if left:
            raise vlib.Infra("edge cover incomplete")
        sel = vlib.sample(rng, walks, nsel)
        beh = walks_to_behaviours(g, sel)
        with lock:
            bfile = ctx.tmp("beh-%s.ndjson" % tag)
            evs = ctx.tmp("events-%s.ndjson" % tag)
            steps = ctx.tmp("steps-%s.ndjson" % tag)
        vlib.write_ndjson(bfile, beh)
        p = ctx.run([exe, "replay", str(nworkers), bfile, evs, steps], timeout=1800)
        st = json.loads(p.stdout.strip().splitlines()[-1])
        nl, mism = monitor(ctx, lock, "replay-" + tag, evs, timeout=2400)
        conf = ctx.tlc(SPEC, "Trace_RQ_%s.cfg" % tag, module="Trace_ReadyQueue", dfs=True, files={"trace.ndjson": steps},
                       timeout=2400, heap="6g", expect_fail=True, name="conf-" + tag)
        cdrift = None
        if conf.violated or conf.error:
            cdrift = "conformance spec failed at step line %d: %s" % (conf.depth, (conf.violated or conf.error)[:200])
        elif conf.depth != st["step_lines"] + 1:
            cdrift = "step log rejected at line %d of %d" % (conf.depth, st["step_lines"])
        return tag, len(walks), len(g.nodes), g.nedges, beh, st, evs, nl, mism, cdrift

    # ------------------------------------------------------------------ 4. spec -> code: macro operations, real capacities
    def seq(nwalks, per_walk):
        r = ctx.tlc(SPEC, "Gen_RQSeq.cfg", module="Gen_RQSeq", simulate="num=%d" % nwalks, depth=14, deadlock_check=False,
                    timeout=1500, workers=1, name="gen-seq")
        allb = vlib.parse_sim_behaviours(r.out)
        # TLC prints every successor at depth D of each walk: keep a few per walk prefix
        groups = {}
        for b in allb:
            groups.setdefault(json.dumps(b[:-1]), []).append(b)
        beh = []
        for k in sorted(groups):
            beh += vlib.sample(rng, groups[k], per_walk)
        if len(beh) < nwalks:
            raise vlib.Infra("macro-operation generator produced too little (%d)" % len(beh))
        with lock:
            bfile = ctx.tmp("beh-seq.ndjson")
            evs = ctx.tmp("events-seq.ndjson")
            ops = ctx.tmp("ops-seq.ndjson")
        vlib.write_ndjson(bfile, beh)
        p = ctx.run([exe, "seq", "3", bfile, evs, ops], timeout=900)
        st = json.loads(p.stdout.strip().splitlines()[-1])
        nl, mism = monitor(ctx, lock, "seq", evs, timeout=2400)
        conf = ctx.tlc(SPEC, "Trace_RQSeq.cfg", module="Trace_RQSeq", dfs=True, files={"trace.ndjson": ops}, timeout=2400, heap="6g",
                       expect_fail=True, name="conf-seq")
        cdrift = None
        if conf.violated or conf.error:
            cdrift = "conformance spec failed at op line %d: %s" % (conf.depth, (conf.violated or conf.error)[:200])
        elif conf.depth != st["op_lines"] + 1:
            row = vlib.read_ndjson(ops)[conf.depth - 1] if conf.depth - 1 < st["op_lines"] else {}
            cdrift = "op log rejected at line %d of %d (%s by w%s, n=%s)" % (conf.depth, st["op_lines"], row.get("op"), row.get("w"), row.get("n"))
        return beh, st, evs, nl, mism, cdrift

    f_seq = pool.submit(seq, 15 if quick else 200, 2)

    # ------------------------------------------------------------------ 5. fixed witness schedules (always replayed)
    def witness():
        walk, ops = witnesses(ctx)
        with lock:
            bfile, evs, steps = ctx.tmp("beh-wit.ndjson"), ctx.tmp("events-wit.ndjson"), ctx.tmp("steps-wit.ndjson")
            ofile, evb = ctx.tmp("ops-burst.ndjson"), ctx.tmp("events-burst.ndjson")
        vlib.write_ndjson(bfile, [walk] * 3)
        vlib.write_ndjson(ofile, [ops] * 3)
        st = json.loads(ctx.run([exe, "replay", "2", bfile, evs, steps], timeout=600).stdout.strip().splitlines()[-1])
        sb = json.loads(ctx.run([exe, "burst", "2", ofile, evb], timeout=600).stdout.strip().splitlines()[-1])
        with lock:
            t = ctx.tmp("events-witness.ndjson")
        with open(t, "w") as out:
            for fn in (evs, evb):
                with open(fn) as f:
                    out.write(f.read())
        nl, mism = monitor(ctx, lock, "witness", t, timeout=900)
        return walk, ops, st, sb, t, nl, mism

    f_wit = pool.submit(witness)

    plans = [("q", 2, 700)] if quick else [("q", 2, 10 ** 9), ("a", 2, 5000), ("b", 3, 5000)]
    f_replay = [pool.submit(replay, *p) for p in plans]

    # ------------------------------------------------------------------ collect
    for f in f_mc:
        r = f.result()
    lr = f_live.result()
    for dname, f in f_def.items():
        r = f.result()
        if not (r.violated or (r.error and "emporal propert" in r.error)):
            raise vlib.Infra("design-level mutation %s is not detected by the spec's invariants (spec changed?)" % dname)
    conf_drift = []
    for f in f_replay:
        tag, nwalks, nnodes, nedges, beh, st, evs, nl, mism, cdrift = f.result()
        total["walks"] += st["behaviours"]
        total["steps"] += st["steps"]
        total["drift"] += st["drift"]
        total["hist"] += st["behaviours"]
        total["events"] += nl
        if cdrift:
            conf_drift.append("%s: %s" % (tag, cdrift))
        if st["drift"]:
            notes.append("replay %s drift: %s" % (tag, st["drift_at"][:2]))
        ctx.log("replay %s: graph %d states / %d edges, %d of %d cover walks, %d atomic steps, drift %d, watchdog %d, conformance %s, "
                "monitor mismatches %d" % (tag, nnodes, nedges, st["behaviours"], nwalks, st["steps"], st["drift"], st["watchdog"],
                                           cdrift or "ok", len(mism)))
        if len(samples) < 3:
            samples.append({"walk_" + tag: [[s["a"]] + s["args"] for s in beh[0]]})
        mismatches += [("puppet replay of ReadyQueue.tla edge cover (%s)" % tag, evs, a, k, d) for a, k, d in mism]
    walk, ops, st, sb, t, nl, mism = f_wit.result()
    total["hist"] += st["behaviours"] + sb["behaviours"]
    total["events"] += nl
    wit_stats = {"atomic_step_witness": [[s["a"]] + s["args"] for s in walk], "burst_witness": ops,
                 "witness_drift_expected_on_correct_code": st["drift"], "burst_deadline_hits": sb["deadline_hits"]}
    ctx.log("witnesses: LPopNoRecheck counterexample (%d steps) x%d: drift %d (expected on correct code); SignalOnFirstOnly burst %s x%d; "
            "monitor mismatches %d" % (len(walk), st["behaviours"], st["drift"], [(o["op"], o["t"], o["n"]) for o in ops],
                                       sb["behaviours"], len(mism)))
    mismatches += [("fixed witness schedules (TLC counterexamples of Defects branches)", t, a, k, d) for a, k, d in mism]
    beh, st, evs, nl, mism, cdrift = f_seq.result()
    total["hist"] += st["behaviours"]
    total["events"] += nl
    if cdrift:
        conf_drift.append("seq: " + cdrift)
    ctx.log("macro-ops: %d behaviours, %d operations on real rings (256/64): %d spills, %d grows, %d multi-item steals, skipped takes %d, "
            "conformance %s, monitor mismatches %d" % (st["behaviours"], st["ops"], st["spills"], st["grows"], st["multi_item_steals"],
                                                       st["skipped_takes"], cdrift or "ok", len(mism)))
    samples.append({"macro_ops": [[o["op"], o["w"], o["n"]] for o in beh[0]]})
    seq_stats = st
    mismatches += [("sequential macro-operation replay (RQSeq.tla, real capacities)", evs, a, k, d) for a, k, d in mism]
    sts, t, nl, mism = f_stress.result()
    total["hist"] += sum(x["histories"] for x in sts.values())
    total["events"] += nl
    ctx.log("stress: %d histories with harness workers + %d with the real dispatcher, %d events, monitor mismatches %d"
            % (sts["rq"]["histories"], sts["disp"]["histories"], nl, len(mism)))
    mismatches += [("free-running stress (harness workers / real dispatcher)", t, a, k, d) for a, k, d in mism]
    pool.shutdown()

    st_, tr_ = ctx.states()
    cov = {"states": st_, "transitions": tr_, "traces_validated_against_impl": total["hist"], "samples": samples,
           "evaluations": total["hist"], "distinct_nontrivial": total["walks"],
           "rule": "histories = puppet replays of edge-cover walks of the ReadyQueue.tla state graph on a real readyQueue "
                   "(distinct_nontrivial: each walk is a distinct interleaving of >= 2 threads) + free-running runs with "
                   "harness workers and with the real dispatcher; every event log judged by TLC (Trace_RQMon.tla)",
           "edge_cover_walks_replayed": total["walks"], "atomic_steps_replayed": total["steps"], "replay_drift": total["drift"],
           "conformance_drift": conf_drift, "events_validated": total["events"], "monitor_mismatches": len(mismatches),
           "macro_ops": {k: seq_stats[k] for k in ("behaviours", "ops", "spills", "grows", "multi_item_steals", "skipped_takes")},
           "witnesses": wit_stats, "notes": notes, "exhaustive": False}
    assumptions = ["pushLocal is called by the owning worker only (as worker.reschedule does)",
                   "puppet replays cover the schedules in which a signalled worker re-acquires parkMu before any other thread "
                   "(the re-acquisition happens inside the Go runtime); other schedules: TLC (Handoff=FALSE) and free-running runs",
                   "local ring capacity 256 / global initial capacity 64 are compile-time constants: overflow, growth and "
                   "multi-item steals are covered on the real code at operation granularity, not at atomic-step granularity",
                   "sync.Mutex / sync.Cond behave as specified (Signal wakes one waiter, no spurious wake-ups)"]
    if mismatches:
        src, trace, line, kind, detail = mismatches[0]
        rp = ctx.save_replay("%s-seed%d" % (kind, ctx.seed), cut_history(ctx, trace, line, "violation-" + kind))
        ctx.evidence("model_checking", cov, assumptions, violations=len(mismatches))
        raise vlib.Violation(pid, rp, "monitor: %s at trace line %d of %s: %s (%d mismatches in total; kinds: %s)"
                             % (kind, line, src, detail, len(mismatches), sorted({m[3] for m in mismatches})))
    if seq_stats["spills"] == 0 or seq_stats["grows"] == 0 or seq_stats["multi_item_steals"] == 0:
        raise vlib.Infra("macro-operation replays did not reach spill/grow/multi-item steal: %s" % seq_stats)
    if conf_drift or total["drift"]:
        ctx.log("drift (not a verdict): %s %s" % (conf_drift, notes))
    ctx.evidence("model_checking", cov, assumptions)
