"""serializers -- C25: message serializers are chosen by type, agree on both sides, fail loudly, round-trip.

Honest scope: the part of C25 that HAS structure is decided by a spec -- the registration / dispatch
state machine (remote.Config options -> Config.serializers map -> ClientSerializerOptions ->
client entries slice -> resolveSerializer on the send side, serializerDispatch on the receive side,
the process-global types registry behind the CBOR / JSON envelopes).  Value-level fidelity of
protobuf / CBOR / JSON themselves is only sampled (a small seeded value family per message kind).

  spec -> code   specs/Serializers/Dispatch.tla (exhaustively model-checked: the repaired design
                 satisfies C25, each recorded defect branch violates it); TLC enumerates every
                 registration history up to a bound (BFS over Gen_Dispatch) plus random longer ones
                 (-simulate); harness/cmd/serializers replays each on the REAL registration API
                 (remote.WithSerializers / WithSerializables / NewConfig, the real
                 actorSystem.setupRemoting, remoteclient.WithClientSerializers / NewClient) and sends
                 every message kind through client.Serializer(m).Serialize and
                 client.Serializer(nil).Deserialize of a second, independently built client.
  code -> spec   specs/Serializers/Trace_Dispatch.tla judges every recorded line: MISMATCH (outside
                 everything the spec allows even with all known defects on) = VIOLATION; KNOWN (differs
                 from the repaired design exactly as a named Defects branch predicts) = known finding;
                 DRIFT (logged entries / choices differ from the transcription) = conformance note.
"""
import json, os, re, threading
import vlib

PROPERTIES = ["C25"]
SPEC = "Serializers"
DEFECTS = ["MapOrderDispatch", "FirstMatchShadowsConcrete", "ProtoOverrideDropped", "NilKeyPanics", "TypeNameCollision",
           "EnvelopeCodecAmbiguity"]
VALUE_DEFECTS = ["CBORTimePrecision"]

# witnesses of the recorded findings and of the interesting precedence cases: always replayed, every seed
DIRECTED = [
    ("client", [("IA", "U1"), ("CT", "CBOR")]),                    # interface registered before the concrete type
    ("client", [("CT", "CBOR"), ("IA", "U1")]),                    # concrete first
    ("client", [("IA", "U1"), ("IB", "U2")]),                      # two interfaces, order 1
    ("client", [("IB", "U2"), ("IA", "U1")]),                      # two interfaces, order 2
    ("client", [("CP", "U1")]),                                    # concrete proto type behind the proto.Message default
    ("client", [("CT", "CBOR"), ("CT", "U1")]),                    # same key twice (append API: first wins)
    ("config", [("CT", "CBOR"), ("CT", "U1")]),                    # same key twice (map API: last wins)
    ("config", [("CT", "CBOR"), ("IA", "U1"), ("IB", "U2")]),
    ("config", [("IA", "U1"), ("IB", "U2")]),
    ("config", [("IA", "JSON"), ("CT", "CBOR")]),                  # CBOR and JSON share the envelope and the types registry
    ("config", [("CT", "JSON"), ("IA", "CBOR")]),
    ("config", [("PM", "U1")]),                                    # override of the proto default
    ("config", [("CP", "U2")]),
    ("config", [("NIL", "U1")]),
    ("client", [("NIL", "U1")]),
    ("config", [("CE1", "CBOR"), ("CE2", "CBOR")]),                # colliding registry names
    ("config", [("CE2", "JSON"), ("CE1", "JSON")]),
    ("client", [("CT", "JSON"), ("CI", "CBOR")]),                  # a primitive sent as CBOR while JSON is tried first on receive
    ("client", [("CT", "CBOR"), ("CI", "JSON")]),                  # ... and the reverse
    ("client", [("CI", "CBOR"), ("CT", "JSON")]),                  # right codec first: no ambiguity
    ("config", [("CI", "CBOR"), ("IA", "JSON")]),
    ("config", [("CT", "Proto")]),                                 # a serializer that cannot encode the type: error, no bytes
]


def _behaviours(ctx, cfg, simulate=None, timeout=300):
    r = ctx.tlc(SPEC, cfg, module="Gen_Dispatch", simulate=simulate, deadlock_check=False, timeout=timeout,
                workers=1 if simulate else 2, name=cfg[:-4] + ("-sim" if simulate else ""))
    out = []
    for h in vlib.parse_sim_behaviours(r.out):
        if not h:
            continue
        out.append({"api": h[0]["api"], "regs": [{"k": x["k"], "s": x["s"]} for x in h]})
    return out


def _marks(out, tag):
    ts = vlib.tuples(out, tag)
    if len(ts) != out.count('"%s"' % tag) or any(not t or not isinstance(t[0], int) for t in ts):
        raise vlib.Infra("could not parse every %s tuple printed by TLC (%d parsed, %d printed)" % (tag, len(ts), out.count('"%s"' % tag)))
    return ts


def _parallel(jobs, width=3):
    """Run independent TLC jobs side by side (each is a small JVM); re-raise the first failure."""
    res, sem = {}, threading.Semaphore(width)

    def go(name, fn):
        with sem:
            try:
                res[name] = fn()
            except Exception as e:
                res[name] = e
    ts = [threading.Thread(target=go, args=(n, f)) for n, f in jobs.items()]
    for t in ts:
        t.start()
    for t in ts:
        t.join()
    for n in jobs:
        if isinstance(res[n], Exception):
            raise res[n]
    return res


def run(ctx, pid):
    quick = ctx.quick
    # ---- 1. design level: the repaired design satisfies C25; every recorded defect branch violates it;
    #         the closed forms the monitor uses equal the permutation semantics of the Build action
    jobs = {
        "mc": lambda: ctx.tlc_must_hold(SPEC, "MC_Dispatch.cfg" if quick else "MC_Dispatch_t.cfg", module="Dispatch", timeout=900, workers=2),
        "cl": lambda: ctx.tlc_must_hold(SPEC, "MC_Closed.cfg" if quick else "MC_Closed_t.cfg", module="Dispatch", timeout=1500, workers=2),
    }
    if not quick:   # closed forms with up to 4 distinct forwarded keys (permutations of 4)
        jobs["clk"] = lambda: ctx.tlc_must_hold(SPEC, "MC_Closed_k.cfg", module="Dispatch", timeout=1500, workers=2)
    # quick: one run with every defect on; thorough: one run per defect branch
    demos = ["All"] if quick else DEFECTS
    for d in demos:
        jobs["d-" + d] = (lambda d=d: ctx.tlc(SPEC, "MC_Defect_%s.cfg" % d, module="Dispatch", timeout=600, workers=2, expect_fail=True))
    gens = ["Gen_D2.cfg"] if quick else ["Gen_D3.cfg"]        # EmitAll: every history of length 1 .. Depth
    for g in gens:
        jobs[g] = (lambda g=g: _behaviours(ctx, g, timeout=900))
    jobs["sim"] = lambda: _behaviours(ctx, "Sim_Dispatch.cfg", simulate="num=%d" % (40 if quick else 400), timeout=900)
    res = _parallel(jobs, width=5)
    mc, cl = res["mc"], res["cl"]
    for d in demos:
        if res["d-" + d].violated != "C25":
            raise vlib.Infra("Defects={%s} should violate C25 in the model, got %r" % (d, res["d-" + d].violated))
    ctx.log("design: C25 holds on %d states of the repaired design; the defect branches violate it (%d runs); closed forms ok on %d states"
            % (mc.distinct, len(demos), cl.distinct))

    # ---- 2. behaviours out of TLC
    exh = [{"api": a, "regs": []} for a in ("config", "client")]
    for g in gens:
        exh += res[g]
    want = 2 + 2 * 20 + 2 * 400 + (0 if quick else 2 * 8000)
    if len(exh) != want:
        raise vlib.Infra("exhaustive generation incomplete: %d histories, expected %d" % (len(exh), want))
    nsim = 60 if quick else 1500
    sim = res["sim"]
    if len(sim) < nsim:
        raise vlib.Infra("random generation produced too little (%d)" % len(sim))
    sim = vlib.sample(ctx.rng, sim, nsim)
    directed = [{"api": a, "regs": [{"k": k, "s": s} for k, s in regs]} for a, regs in DIRECTED]
    for i, b in enumerate(exh):
        b["full"] = (i % 8 == 0)        # the whole value family on every 8th exhaustive history, two classes at most on the others
    for b in directed + sim:
        b["full"] = True
    behaviours = directed + exh + sim
    bfile = ctx.tmp("behaviours.ndjson")
    vlib.write_ndjson(bfile, behaviours)
    ctx.log("behaviours: %d directed + %d exhaustive (every history of length <= %d, both APIs) + %d random (length 5)"
            % (len(directed), len(exh), 2 if quick else 3, len(sim)))

    # ---- 3. replay on the real registration / dispatch code
    exe = ctx.build("serializers")
    trace = ctx.tmp("trace.ndjson")
    rounds = 2 if quick else 3
    p = ctx.run([exe, "replay", bfile, trace, str(rounds)], timeout=1200)
    stats = json.loads(p.stdout.strip().splitlines()[-1])
    nlines = stats["events"]

    # ---- 4. TLC judges the recording
    mon = ctx.tlc(SPEC, "Trace_Dispatch.cfg", dfs=True, files={"trace.ndjson": trace}, timeout=1500 if quick else 5400, heap="12g")
    if mon.depth != nlines + 1:
        raise vlib.Infra("monitor did not consume the whole trace (%d of %d)" % (mon.depth - 1, nlines))
    mism = _marks(mon.out, "MISMATCH")
    known = _marks(mon.out, "KNOWN")
    drift = _marks(mon.out, "DRIFT")

    rows = vlib.read_ndjson(trace)

    def history_of(line):          # 1-based line -> the rows of its history
        i = line - 1
        start = max(j for j in range(i + 1) if rows[j]["op"] == "New")
        end = next((j for j in range(i + 1, len(rows)) if rows[j]["op"] == "New"), len(rows))
        return start, end

    # known findings: identified by the Defects branch(es) of the spec that reproduce the recorded result
    known_counts, unknown = {}, []
    for t in known:
        ids = re.findall(r'"(\w+)"', t[1]) if isinstance(t[1], str) and t[1].startswith("{") else [t[1]]
        for i in ids:
            known_counts[i] = known_counts.get(i, 0) + 1
            if i in DEFECTS + VALUE_DEFECTS and ctx.is_known(i):
                ctx.report_known(i, "real result explained by defect branch %s of Dispatch.tla (e.g. trace line %d: %s %s %s)"
                                 % (i, t[0], t[2], t[3], t[4]))
            else:
                unknown.append(t)
    sends = [r for r in rows if r["op"] == "Send"]
    kinds = sorted({r["kind"] for r in sends})
    nontrivial = len({json.dumps(b, sort_keys=True) for b in behaviours if len({x["k"] for x in b["regs"]}) >= 2})
    cov = {
        "states": ctx.states()[0], "transitions": ctx.states()[1],
        "traces_validated_against_impl": stats["builds"],
        "samples": [[b["api"]] + [[x["k"], x["s"]] for x in b["regs"]] for b in (behaviours[0], exh[len(exh) // 2], sim[-1])],
        "evaluations": len(sends), "distinct_nontrivial": nontrivial,
        "rule": "registration histories over keys {proto.Message, concrete proto type, concrete struct, interface A, interface B} x "
                "serializers {CBOR, JSON, U1, U2}: every history of length <= %d through both APIs (TLC BFS), %d TLC random walks of "
                "length 5 that add {nil key, two colliding type names, Proto}, %d directed witnesses; after each history both nodes are "
                "built (config API: %d times, to sample map order) and 13 message kinds x seeded value classes are sent; "
                "non-trivial = at least two distinct keys registered" % (2 if quick else 3, len(sim), len(directed), rounds),
        "exhaustive": True,
        "exhaustive_histories": len(exh), "random_histories": len(sim), "directed_histories": len(directed),
        "events_validated": nlines, "builds": stats["builds"], "sends": len(sends), "message_kinds": kinds,
        "monitor_mismatches": len(mism), "known_finding_lines": known_counts, "conformance_drift": len(drift),
        "conformance_drift_first": (drift[0] if drift else None),
    }
    assumptions = [
        "structure only: the spec decides registration / dispatch / envelope agreement; value fidelity of protobuf, CBOR and JSON "
        "is SAMPLED (per kind: zero, plain (seeded), empty-vs-nil containers, extremes, nanosecond time), not proved",
        "CBOR vs JSON payload disjointness (they share the frame layout and the types registry) is an assumption of the spec, "
        "checked on the sampled values: it holds for struct messages and fails for primitive messages (kind mInt, finding "
        "EnvelopeCodecAmbiguity); other primitive types are outside the domain",
        "sender and receiver clients are built independently from the same configuration but live in one process "
        "(they share the process-global types registry, as two nodes running the same binary would after the same registrations)",
        "the send path is client.Serializer(m).Serialize(m) and the receive path client.Serializer(nil).Deserialize(b): the calls the "
        "RemoteTell/RemoteAsk client code and the remote server make; no network, no compression",
        "user serializers U1/U2 are self-describing test codecs with their own magic; receiver-side identification uses a recording "
        "wrapper for JSON/U1/U2 and the decoded dynamic type for the unwrapped built-ins",
        "the nil-vs-empty and time normalisations applied before comparing: time.Time compared as instants in UTC (documented for "
        "Terminated; CBOR/JSON do not carry locations); nil and empty containers are NOT identified (both codecs preserve them)",
        "bounded: history length and key/serializer alphabets of Gen_D*.cfg / Sim_Dispatch.cfg",
    ]
    level = "exploration"
    bad = mism + unknown
    if bad:
        t = bad[0]
        start, end = history_of(t[0])
        snippet = ctx.tmp("violation.ndjson")
        vlib.write_ndjson(snippet, rows[start:end])
        rp = ctx.save_replay("seed%d" % ctx.seed, snippet, text="monitor line: %r\nhistory: %s\n" % (t, json.dumps(
            [[r["k"], r["s"]] for r in rows[start:end] if r["op"] == "Reg"])))
        ctx.evidence(level, cov, assumptions, violations=len(bad))
        raise vlib.Violation(pid, rp, "monitor rejects a recorded real execution at trace line %s: %s (%d rejected lines)"
                             % (t[0], " ".join(str(x) for x in t[1:]), len(bad)))
    if drift:
        ctx.log("conformance drift (not a verdict): %d lines, first %r" % (len(drift), drift[0]))
    ctx.log("monitor: %d lines, %d sends, 0 mismatches; known-finding lines %s" % (nlines, len(sends), known_counts))
    ctx.evidence(level, cov, assumptions)
