"""C20 — event stream subscribers get every event once, in publish order.

Design:     specs/EventStream/MSQueue.tla  the subscriber queue (internal/queue: Michael-Scott queue) at atomic-step
                                           granularity, ghost abstract FIFO updated at the linearization points;
                                           Defects={"PoolReuse"} is the code as found (nodes recycled through sync.Pool).
            specs/EventStream/Stream.tla   topics map, subscriber `active` flag, snapshot-then-signal publish, Iterator =
                                           length read then that many dequeues, subscribe / unsubscribe / remove.
spec->code: walks covering EVERY edge of the bounded state graphs are executed step by step by the puppet scheduler
            (verifhook gates) on the REAL queue.Queue and the REAL EventsStream.
code->spec: (verdict) the call/return histories of those replays and of free-running concurrent runs are judged by TLC:
            LinFifo.tla (linearizable to a FIFO, each element dequeued exactly once, nil only when empty) and
            StreamMon.tla (per subscriber: every event that had to be delivered is delivered exactly once, per-publisher
            order, nothing published after unsubscribe/remove returned);
            (conformance) Trace_MSQueue.tla / Trace_Stream.tla re-run the design specs' actions against the projected
            real state after every step; rejection = drift, never a verdict.
"""
import json, os, re, collections, threading, concurrent.futures
import vlib, tlagraph

PROPERTIES = ["C20"]
SPEC = "EventStream"


# ------------------------------------------------------------------------------------------- helpers
def fn(txt):
    """TLC function with string domain '[p1 |-> 2, c1 |-> 0]' -> dict."""
    return {m.group(1): int(m.group(2)) for m in re.finditer(r'(\w+) \|-> (-?\d+)', txt)}


def write_cfg(ctx, lock, name, text):
    with lock:
        p = ctx.tmp(name)
    with open(p, "w") as f:
        f.write(text)
    return p


def msq_cfg(enq, deq, nmsgs, ndeq, nnodes, defects=(), extra=""):
    return ('SPECIFICATION Spec\nCONSTANTS\n  Enqueuers = {%s}\n  Dequeuers = {%s}\n  NMsgs = %d\n  NDeq = %d\n  NNodes = %d\n'
            '  Defects = {%s}\n  PoolPolicy = "oneP"\n  RankOf <- Ranks\nVIEW View\nCHECK_DEADLOCK FALSE\n%s'
            % (", ".join('"%s"' % e for e in enq), ", ".join('"%s"' % d for d in deq), nmsgs, ndeq, nnodes,
               ", ".join('"%s"' % d for d in defects), extra))


MSQ_INV = "INVARIANTS ChainIsAbs ValueOK NoDup QuiescentExact OneList\nPROPERTIES EmptyOK\n"


def queue_behaviours(g, walks):
    """edge-cover walks of MSQueue.tla -> driver behaviours (action, thread, the thread's locals after the step)."""
    out = []
    for w in walks:
        steps = []
        for s in w:
            st = g.state(s["to"])
            t = s["args"][0]
            x = {"a": s["a"], "args": s["args"], "node": fn(st["node"])[t], "lt": fn(st["lt"])[t], "ln": fn(st["ln"])[t]}
            if s["a"] == "DDec" or (s["a"] == "DLoadNext" and re.search(r'%s \|-> "(idle|done)"' % t, st["pc"])):
                x["res"] = int(st["lastRes"])
            steps.append(x)
        out.append(steps)
    return out


class LinJudged:
    def __init__(self):
        self.n = 0
        self.ok = 0
        self.bad = []        # (from_line, to_line) 1-based inclusive spans of histories that are not linearizable
        self.rows = None
        self.concurrent = 0  # histories with at least two overlapping operations


def judge_fifo(ctx, lock, label, trace, timeout=1500):
    """TLC/LinFifo.tla over a file of call/return histories."""
    r = ctx.tlc(SPEC, "LinFifo.cfg", module="LinFifo", dfs=True, files={"trace.ndjson": trace}, timeout=timeout,
                heap="6g", name="lin-" + label)
    rows = vlib.read_ndjson(trace)
    bounds = [i + 1 for i, e in enumerate(rows) if e["ev"] == "New"]
    ends = {int(m.group(1)) for m in re.finditer(r'<<"END", (\d+)>>', r.out)}
    seen = ends | {int(m.group(1)) for m in re.finditer(r'<<"ENDBAD", (\d+)>>', r.out)}
    j = LinJudged()
    j.rows = rows
    j.n = len(bounds) - 1
    if bounds and bounds[-1] not in seen:
        raise vlib.Infra("LinFifo did not consume the whole history file %s" % label)
    for k in range(1, len(bounds)):
        if bounds[k] in ends:
            j.ok += 1
        else:
            j.bad.append((bounds[k - 1], bounds[k]))
        open_ops = 0
        for e in rows[bounds[k - 1]:bounds[k] - 1]:
            open_ops += 1 if e["ev"] == "call" else -1
            if open_ops >= 2:
                j.concurrent += 1
                break
    return j


def describe_fifo(rows, span):
    h = rows[span[0]:span[1] - 1]
    enq = [e["id"] for e in h if e["ev"] == "call" and e["op"] == "enq"]
    got = [e["res"] for e in h if e["ev"] == "ret" and e["op"] == "deq" and e["res"] != 0]
    lost = sorted(set(enq) - set(got))
    dup = sorted({x for x in got if got.count(x) > 1})
    alien = sorted(set(got) - set(enq))
    parts = []
    if lost:
        parts.append("enqueued but never dequeued (final drain returned nil): %s" % lost)
    if dup:
        parts.append("dequeued twice: %s" % dup)
    if alien:
        parts.append("dequeued but never enqueued in this history: %s" % alien)
    if not parts:
        parts.append("order / emptiness report not explainable by any linearization; dequeued %s" % got)
    return "; ".join(parts)


def cut(ctx, lock, rows, span, name):
    with lock:
        p = ctx.tmp(name + ".ndjson")
    vlib.write_ndjson(p, rows[span[0] - 1:span[1]])
    return p


# ------------------------------------------------------------------------------------------- run
def run(ctx, pid):
    quick = ctx.quick
    rng = ctx.rng
    lock = threading.Lock()
    exe = ctx.build("eventstream")
    pool = concurrent.futures.ThreadPoolExecutor(max_workers=4)
    total = collections.Counter()
    samples = []
    drift_notes = []
    assumptions = [
        "step-wise replays run with GOMAXPROCS(1) and GC off (deterministic goroutine hand-over; sync.Pool, if the tree under "
        "test recycles queue nodes, then behaves as the one-P model: private slot, LIFO shared list); a replay in which the real "
        "node identity differs from the model's is counted as unreproduced, never as a violation",
        "call/return order of free-running histories = sequence number taken under one lock before the call and after the "
        "return (sound for linearizability; may only lose real-time precedence)",
        "consumers: Subscriber does not document single-goroutine use, so concurrent Iterator calls on one subscriber are "
        "explored too; the per-publisher order clause is then checked within each Iterator result",
        "bounds of the exhaustive runs as stated in the .cfg files (2-3 threads per role, 1-2 operations each)",
    ]

    def finish(violations=0):
        st, tr = ctx.states()
        cov = {"states": st, "transitions": tr, "traces_validated_against_impl": total["hist"], "samples": samples[:6],
               "evaluations": total["hist"], "distinct_nontrivial": total["concurrent_ok"],
               "rule": "histories = puppet replays of edge-cover walks of the MSQueue.tla / Stream.tla state graphs on the real "
                       "queue.Queue / EventsStream + free-running concurrent runs; distinct_nontrivial = histories with at "
                       "least two overlapping operations that TLC judged correct (LinFifo / StreamMon)",
               "edge_cover_walks_replayed": total["walks"], "atomic_steps_replayed": total["steps"],
               "replay_drift": total["drift"], "replay_unreproduced": total["unrep"],
               "model_prediction_mismatches": total["pred"], "conformance": drift_notes, "exhaustive": False}
        ctx.evidence("model_checking", cov, assumptions, violations=violations)

    def account_fifo(j, source):
        total["hist"] += j.n
        total["concurrent_ok"] += min(j.concurrent, j.ok)
        if j.bad:
            span = j.bad[0]
            rp = ctx.save_replay("queue-seed%d" % ctx.seed, cut(ctx, lock, j.rows, span, "violation-queue"))
            finish(violations=len(j.bad))
            raise vlib.Violation(pid, rp, "internal/queue (%s): %d of %d histories are not linearizable to a FIFO queue; first at "
                                 "lines %d..%d: %s" % (source, len(j.bad), j.n, span[0], span[1], describe_fifo(j.rows, span)))

    # ------------------------------------------------------------------ 1. design level
    if quick:
        mc_cfgs = [("mc-2e1m-2d2", msq_cfg(["p1", "p2"], ["c1", "c2"], 1, 2, 3, extra=MSQ_INV))]
    else:
        mc_cfgs = [("mc-2e2m-2d2", msq_cfg(["p1", "p2"], ["c1", "c2"], 2, 2, 5, extra=MSQ_INV)),
                   ("mc-3e1m-2d2", msq_cfg(["p1", "p2", "p3"], ["c1", "c2"], 1, 2, 4, extra=MSQ_INV)),
                   ("mc-2e2m-1d4", msq_cfg(["p1", "p2"], ["c1"], 2, 4, 5, extra=MSQ_INV))]
    f_mc = []
    for name, text in mc_cfgs:
        cfg = write_cfg(ctx, lock, name + ".cfg", text)
        f_mc.append(pool.submit(ctx.tlc_must_hold, SPEC, os.path.basename(cfg), module="MC_MSQueue",
                                files={os.path.basename(cfg): cfg}, timeout=2400, workers=4 if quick else 8, name=name))
    # the code as found must keep violating the design obligations (otherwise the Defects branch is stale)
    f_asis = pool.submit(ctx.tlc, SPEC, "MC_MSQueue_asis.cfg", module="MC_MSQueue", timeout=900, expect_fail=True, workers=2)

    # ------------------------------------------------------------------ 2. free-running queue histories
    def qstress_one(label, nenq, nmsgs, ndeq, nh):
        with lock:
            t = ctx.tmp("qstress-%s.ndjson" % label)
        ctx.run([exe, "qstress", str(nenq), str(nmsgs), str(ndeq), str(nh), str(ctx.seed * 1000 + nenq * 10 + ndeq), t], timeout=900)
        return label, judge_fifo(ctx, lock, "qstress-" + label, t, timeout=3000)

    nh = 400 if quick else 5000
    stress_futs = [pool.submit(qstress_one, "3e3m1d", 3, 3, 1, nh), pool.submit(qstress_one, "3e2m2d", 3, 2, 2, nh)]

    # ------------------------------------------------------------------ 3. spec -> code: MSQueue edge cover
    def dump(name, text):
        cfg = write_cfg(ctx, lock, name + ".cfg", text)
        return ctx.tlc(SPEC, os.path.basename(cfg), module="MC_MSQueue", files={os.path.basename(cfg): cfg}, timeout=1800,
                       dump_dot=True, name=name, workers=4)

    def qreplay_one(label, beh, constants):
        with lock:
            bfile = ctx.tmp("q-%s-behaviours.ndjson" % label)
            hfile = ctx.tmp("q-%s-hist.ndjson" % label)
            cfile = ctx.tmp("q-%s-conf.ndjson" % label)
        vlib.write_ndjson(bfile, beh)
        p = ctx.run([exe, "qreplay", bfile, hfile, cfile], timeout=1800)
        rs = json.loads(p.stdout.strip().splitlines()[-1])
        j = judge_fifo(ctx, lock, "qreplay-" + label, hfile, timeout=3000)
        conf = ctx.tlc(SPEC, "Trace_MSQueue.cfg", dfs=True, files={"trace.ndjson": cfile}, timeout=3000, heap="8g",
                       expect_fail=True, name="conf-" + label)
        drift = None
        if conf.error or conf.violated:
            drift = "Trace_MSQueue error on %s: %s" % (label, (conf.error or conf.violated)[:300])
        elif conf.depth != rs["conf_lines"] + 1:
            drift = "Trace_MSQueue rejected the real trace of %s at line %d of %d" % (label, conf.depth, rs["conf_lines"])
        return label, rs, j, drift

    dumps = [("1d", msq_cfg(["p1", "p2"], ["c1"], 1, 2, 3), 100000 if quick else 100000),
             ("2d", msq_cfg(["p1", "p2"], ["c1", "c2"], 1, 1, 3), 2500 if quick else 100000)]
    if not quick:
        dumps.append(("1d2m", msq_cfg(["p1", "p2"], ["c1"], 2, 2, 5), 40000))
    replay_futs = []
    for label, text, nsel in dumps:
        d = dump("dump-msq-" + label, text)
        g = tlagraph.Graph.load(os.path.join(d.rundir, "graph.dot"))
        walks, left = g.edge_cover(rng)
        if left:
            raise vlib.Infra("edge cover incomplete (MSQueue %s)" % label)
        sel = vlib.sample(rng, walks, nsel)
        beh = queue_behaviours(g, sel)
        total["walks_available"] += len(walks)
        if len(samples) < 2:
            samples.append({"msqueue_walk_" + label: [[s["a"], s["args"][0]] for s in beh[0]]})
        replay_futs.append(pool.submit(qreplay_one, label, beh, None))
        del g

    # ------------------------------------------------------------------ 4. stream level
    stream_futs = run_stream(ctx, pid, exe, pool, lock, rng, total, samples, drift_notes)

    # ------------------------------------------------------------------ collect
    for f in f_mc:
        r = f.result()
        ctx.log("design MSQueue: %d distinct states, obligations hold" % r.distinct)
    asis = f_asis.result()
    if asis.violated is None:
        raise vlib.Infra("MSQueue.tla with Defects={PoolReuse} no longer violates its obligations (spec changed?)")
    for fut in replay_futs:
        label, rs, j, drift = fut.result()
        total["drift"] += rs["drift"]
        total["unrep"] += rs["unreproduced"]
        total["pred"] += rs["pred_mismatch"]
        total["walks"] += rs["behaviours"]
        total["steps"] += rs["steps"]
        ctx.log("qreplay %-5s: %d walks, %d atomic steps, drift %d, unreproduced %d, pred-mismatch %d, watchdog %d | histories %d ok %d"
                % (label, rs["behaviours"], rs["steps"], rs["drift"], rs["unreproduced"], rs["pred_mismatch"], rs["watchdog"], j.n, j.ok))
        if rs.get("drift_at"):
            drift_notes.append("replay drift: " + rs["drift_at"])
        if drift:
            drift_notes.append(drift)
        account_fifo(j, "puppet replay of MSQueue.tla edge cover %s" % label)
    for fut in stress_futs:
        label, j = fut.result()
        if len(samples) < 4:
            samples.append({"qstress_" + label: j.rows[1:9]})
        ctx.log("qstress %-7s: histories %d ok %d (with overlap %d)" % (label, j.n, j.ok, j.concurrent))
        account_fifo(j, "free-running stress %s" % label)
    for fut in stream_futs:
        fut()
    pool.shutdown()
    for d in drift_notes:
        ctx.log("conformance drift (not a verdict): " + d)
    finish()


def run_stream(ctx, pid, exe, pool, lock, rng, total, samples, drift_notes):
    return []
