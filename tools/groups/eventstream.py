"""C20 — event stream subscribers get every event once, in publish order.

Design:     specs/EventStream/MSQueue.tla  the subscriber queue (internal/queue: Michael-Scott queue) at atomic-step
                                           granularity, ghost abstract FIFO updated at the linearization points;
                                           Defects={"PoolReuse"} is the code as found (nodes recycled through sync.Pool).
            specs/EventStream/Stream.tla   topics map, subscriber `active` flag, snapshot-then-signal publish, Iterator =
                                           length read then that many dequeues, subscribe / unsubscribe / remove.
spec->code: walks covering EVERY edge of the bounded state graphs are executed step by step by the puppet scheduler
            (verifhook gates) on the REAL queue.Queue and the REAL EventsStream.
code->spec: (verdict) the call/return histories of those replays and of free-running concurrent runs are judged by TLC:
            LinFifo.tla (linearizable to a FIFO, each element dequeued exactly once, nil only when empty) and
            StreamMon.tla (per subscriber: every event that had to be delivered is delivered exactly once, per-publisher
            order, nothing published after unsubscribe/remove returned);
            (conformance) Trace_MSQueue.tla / Trace_Stream.tla re-run the design specs' actions against the projected
            real state after every step; rejection = drift, never a verdict.
"""
import json, os, re, collections, threading, concurrent.futures
import vlib, tlagraph

PROPERTIES = ["C20"]
SPEC = "EventStream"


# ------------------------------------------------------------------------------------------- helpers
def fn(txt):
    """TLC function with string domain '[p1 |-> 2, c1 |-> 0]' -> dict."""
    return {m.group(1): int(m.group(2)) for m in re.finditer(r'(\w+) \|-> (-?\d+)', txt)}


def write_cfg(ctx, lock, name, text):
    with lock:
        p = ctx.tmp(name)
    with open(p, "w") as f:
        f.write(text)
    return p


def msq_cfg(enq, deq, nmsgs, ndeq, nnodes, defects=(), extra=""):
    return ('SPECIFICATION Spec\nCONSTANTS\n  Enqueuers = {%s}\n  Dequeuers = {%s}\n  NMsgs = %d\n  NDeq = %d\n  NNodes = %d\n'
            '  Defects = {%s}\n  PoolPolicy = "oneP"\n  RankOf <- Ranks\nVIEW View\nCHECK_DEADLOCK FALSE\n%s'
            % (", ".join('"%s"' % e for e in enq), ", ".join('"%s"' % d for d in deq), nmsgs, ndeq, nnodes,
               ", ".join('"%s"' % d for d in defects), extra))


MSQ_INV = "INVARIANTS ChainIsAbs ValueOK NoDup QuiescentExact OneList\nPROPERTIES EmptyOK\n"


def queue_behaviours(g, walks):
    """edge-cover walks of MSQueue.tla -> driver behaviours (action, thread, the thread's locals after the step)."""
    out = []
    for w in walks:
        steps = []
        for s in w:
            st = g.state(s["to"])
            t = s["args"][0]
            x = {"a": s["a"], "args": s["args"], "node": fn(st["node"])[t], "lt": fn(st["lt"])[t], "ln": fn(st["ln"])[t]}
            if s["a"] == "DDec" or (s["a"] == "DLoadNext" and re.search(r'%s \|-> "(idle|done)"' % t, st["pc"])):
                x["res"] = int(st["lastRes"])
            steps.append(x)
        out.append(steps)
    return out


def printed(out, tag):
    """tuples <<"tag", ...>> printed by a monitor (robust against TLC wrapping long tuples); every occurrence must parse."""
    ts = vlib.tuples(out, tag)
    if len(ts) != out.count('"%s"' % tag):
        raise vlib.Infra("could not parse every %s tuple printed by TLC (%d of %d)" % (tag, len(ts), out.count('"%s"' % tag)))
    return ts


class Judged:
    """Verdicts of one TLC monitor run over several concatenated history files."""
    def __init__(self):
        self.rows = []
        self.sources = []     # (label, first_line, last_line) 1-based inclusive
        self.n = collections.Counter()           # label -> histories
        self.concurrent = collections.Counter()  # label -> DISTINCT histories with at least two overlapping operations
        self.seen = set()
        self.bad = collections.defaultdict(list) # label -> [(from_line, to_line, detail)]

    def label_of(self, line):
        for label, a, b in self.sources:
            if a <= line <= b:
                return label
        return "?"


def concat(ctx, lock, name, parts):
    """parts = [(label, path)] -> (path of the concatenation, Judged with rows / sources filled)."""
    j = Judged()
    with lock:
        out = ctx.tmp(name)
    with open(out, "w") as f:
        for label, path in parts:
            rows = vlib.read_ndjson(path)
            j.sources.append((label, len(j.rows) + 1, len(j.rows) + len(rows)))
            j.rows.extend(rows)
            with open(path) as g:
                f.write(g.read())
    return out, j


def count_histories(j, key):
    """fills n / concurrent; returns [(label, from_line, to_line)] per history (from = opening New line, to = closing New line)."""
    hs = []
    for label, a, b in j.sources:
        bounds = [i for i in range(a, b + 1) if j.rows[i - 1][key] == "New"]
        for k in range(1, len(bounds)):
            if bounds[k] == bounds[k - 1] + 1:
                continue
            hs.append((label, bounds[k - 1], bounds[k]))
            j.n[label] += 1
            open_ops, overlap = 0, False
            for e in j.rows[bounds[k - 1]:bounds[k] - 1]:
                open_ops += 1 if e["ev"] == "call" else -1
                overlap = overlap or open_ops >= 2
            if overlap:
                h = hash(json.dumps([[e.get(f) for f in ("ev", "t", "op", "id", "e", "s", "res")]
                                     for e in j.rows[bounds[k - 1]:bounds[k] - 1]]))
                if h not in j.seen:
                    j.seen.add(h)
                    j.concurrent[label] += 1
    return hs


def judge_fifo(ctx, lock, parts, timeout=3000):
    """one TLC/LinFifo.tla run over all queue histories."""
    trace, j = concat(ctx, lock, "queue-histories.ndjson", parts)
    r = ctx.tlc(SPEC, "LinFifo.cfg", module="LinFifo", dfs=True, files={"trace.ndjson": trace}, timeout=timeout,
                heap="8g", name="lin-fifo")
    ends = {t[0] for t in printed(r.out, "END")}
    seen = ends | {t[0] for t in printed(r.out, "ENDBAD")}
    if len(j.rows) not in seen:
        raise vlib.Infra("LinFifo did not consume the whole history file")
    for label, a, b in count_histories(j, "ev"):
        if b not in ends:
            j.bad[label].append((a, b, describe_fifo(j.rows, (a, b))))
    return j


def describe_fifo(rows, span):
    h = rows[span[0]:span[1] - 1]
    enq = [e["id"] for e in h if e["ev"] == "call" and e["op"] == "enq"]
    got = [e["res"] for e in h if e["ev"] == "ret" and e["op"] == "deq" and e["res"] != 0]
    lost = sorted(set(enq) - set(got))
    dup = sorted({x for x in got if got.count(x) > 1})
    alien = sorted(set(got) - set(enq))
    parts = []
    if lost:
        parts.append("enqueued but never dequeued (final drain returned nil): %s" % lost)
    if dup:
        parts.append("dequeued twice: %s" % dup)
    if alien:
        parts.append("dequeued but never enqueued in this history: %s" % alien)
    if not parts:
        parts.append("order / emptiness report not explainable by any linearization; dequeued %s" % got)
    return "; ".join(parts)


STREAM_WHAT = {
    "lost": "event %(e)d was published while %(s)s was subscribed and active but no Iterator ever returned it",
    "dup": "event %(e)d was returned twice to %(s)s",
    "dup-in-result": "one Iterator result of %(s)s contains an event twice",
    "alien": "Iterator of %(s)s returned %(e)d which was never published (nil / foreign message)",
    "after-unsubscribe": "event %(e)d, published after Unsubscribe/Remove/Shutdown of %(s)s had returned, was delivered to it",
    "order-in-result": "an Iterator result of %(s)s is not in publish order",
    "order-across-results": "successive (non-overlapping) Iterator results of %(s)s are not in publish order",
    "panic": "Iterator of %(s)s panicked"}


def judge_stream(ctx, lock, parts, timeout=3000):
    """one TLC/StreamMon.tla run over all stream histories."""
    trace, j = concat(ctx, lock, "stream-histories.ndjson", parts)
    r = ctx.tlc(SPEC, "StreamMon.cfg", module="StreamMon", dfs=True, files={"trace.ndjson": trace}, timeout=timeout,
                heap="8g", name="mon-stream")
    if r.depth != len(j.rows) + 1:
        raise vlib.Infra("StreamMon did not consume the whole history file (%d of %d lines)" % (r.depth - 1, len(j.rows)))
    hs = count_histories(j, "ev")
    mism = collections.defaultdict(list)
    for t in printed(r.out, "MISMATCH"):
        mism[t[0]].append((t[1], t[2], t[3]))
    for label, a, b in hs:
        found = [(ln, x) for ln in range(a + 1, b + 1) for x in mism.get(ln, [])]   # end checks are reported at line b
        if found:
            kind, ev, sub = found[0][1]
            j.bad[label].append((a, b, STREAM_WHAT.get(kind, kind + " (%(s)s)") % {"e": ev, "s": sub}))
    return j


def cut(ctx, lock, rows, span, name):
    with lock:
        p = ctx.tmp(name + ".ndjson")
    vlib.write_ndjson(p, rows[span[0] - 1:span[1]])
    return p


def conformance(ctx, lock, spec_cfg_text, module, cfgname, parts, timeout=3000):
    """one TLC trace-validation run (design spec actions vs. projected real state) over concatenated step logs."""
    with lock:
        out = ctx.tmp("conf-" + cfgname + ".ndjson")
    n = 0
    with open(out, "w") as f:
        for label, path in parts:
            with open(path) as g:
                txt = g.read()
            n += txt.count("\n")
            f.write(txt)
    files = {"trace.ndjson": out}
    if spec_cfg_text:
        cfg = write_cfg(ctx, lock, cfgname + ".cfg", spec_cfg_text)
        files[os.path.basename(cfg)] = cfg
        cfgname = os.path.basename(cfg)[:-4]
    conf = ctx.tlc(SPEC, cfgname + ".cfg", module=module, dfs=True, files=files, timeout=timeout, heap="8g", expect_fail=True,
                   name="conf-" + cfgname)
    if conf.error or conf.violated:
        return "%s error: %s" % (module, (conf.error or conf.violated)[:300])
    if conf.depth != n + 1:
        return "%s rejected the real trace (%s) at line %d of %d" % (module, "+".join(l for l, _ in parts), conf.depth, n)
    return None


# ------------------------------------------------------------------------------------------- run
def run(ctx, pid):
    quick = ctx.quick
    lock = threading.Lock()
    exe = ctx.build("eventstream")
    pool = concurrent.futures.ThreadPoolExecutor(max_workers=5)
    total = collections.Counter()
    samples = []
    drift_notes = []
    assumptions = [
        "step-wise replays run with GOMAXPROCS(1) and GC off (deterministic goroutine hand-over; sync.Pool, if the tree under "
        "test recycles queue nodes, then behaves as the one-P model: private slot, LIFO shared list); a replay in which the real "
        "node identity / Go map iteration order differs from the model's choice is counted as unreproduced, never as a violation",
        "call/return order of free-running histories = order in which the events were appended under one lock, before the call "
        "and after the return (sound for linearizability; may only lose real-time precedence); free-running runs install a "
        "verifhook handler that yields the processor at random hook points",
        "schurn: of the free-running subscribe/unsubscribe churn only the rounds flagged by the driver's screen (the probe's "
        "Iterator did not return exactly one copy of the event it had just published) and a random sample are handed to TLC",
        "consumers: Subscriber does not document single-goroutine use, so concurrent Iterator calls on one subscriber are "
        "explored too; the per-publisher order clause is then checked within each Iterator result only",
        "bounds of the exhaustive runs as stated in the generated .cfg files (2-3 threads per role, 1-2 operations each)",
    ]

    def evidence(violations=0):
        st, tr = ctx.states()
        cov = {"states": st, "transitions": tr, "traces_validated_against_impl": total["hist"], "samples": samples[:6],
               "evaluations": total["hist"], "distinct_nontrivial": total["concurrent_ok"],
               "rule": "histories = puppet replays of edge-cover walks of the MSQueue.tla / Stream.tla state graphs on the real "
                       "queue.Queue / EventsStream, hand-written witness schedules, and free-running concurrent runs; "
                       "distinct_nontrivial = distinct (by content) histories with at least two overlapping operations that TLC judged correct "
                       "(LinFifo / StreamMon)",
               "edge_cover_walks_available": total["walks_available"], "edge_cover_walks_replayed": total["walks"],
               "atomic_steps_replayed": total["steps"], "replay_drift": total["drift"], "replay_unreproduced": total["unrep"],
               "model_prediction_mismatches": total["pred"], "churn_probe_iterations": total["churn_iterations"],
               "churn_rounds_flagged_by_screen": total["churn_rounds_flagged"], "conformance": drift_notes or "accepted", "exhaustive": False}
        ctx.evidence("model_checking", cov, assumptions, violations=violations)

    # ------------------------------------------------------------------ pipelines: dump graph -> edge cover -> replay
    def q_pipeline(label, cfgtext, nsel):
        cfg = write_cfg(ctx, lock, "msq-%s.cfg" % label, cfgtext)
        d = ctx.tlc_must_hold(SPEC, os.path.basename(cfg), module="MC_MSQueue", files={os.path.basename(cfg): cfg}, timeout=2400,
                              dump_dot=True, name="msq-" + label, workers=4)
        g = tlagraph.Graph.load(os.path.join(d.rundir, "graph.dot"))
        rng = vlib.random.Random("%d-%s" % (ctx.seed, label))
        walks, left = g.edge_cover(rng)
        if left:
            raise vlib.Infra("edge cover incomplete (MSQueue %s)" % label)
        sel = vlib.sample(rng, walks, nsel)
        beh = queue_behaviours(g, sel)
        with lock:
            bfile, hfile, cfile = (ctx.tmp("q-%s-%s.ndjson" % (label, x)) for x in ("behaviours", "hist", "conf"))
        vlib.write_ndjson(bfile, beh)
        p = ctx.run([exe, "qreplay", bfile, hfile, cfile], timeout=1800)
        rs = json.loads(p.stdout.strip().splitlines()[-1])
        return {"label": label, "rs": rs, "hist": hfile, "conf": cfile, "avail": len(walks), "distinct": d.distinct,
                "sample": [[s["a"], s["args"][0]] for s in beh[0]]}

    def q_sim_pipeline(label, num):
        """random deep walks at larger bounds (3 enqueuers x 2, 2 dequeuers x 3) from TLC -simulate over Gen_MSQueue.tla"""
        r = ctx.tlc(SPEC, "Sim_MSQueue.cfg", module="Gen_MSQueue", simulate="num=%d" % num, depth=90, deadlock_check=False,
                    timeout=1800, workers=1, name="sim-msq")
        seen, beh = set(), []
        for h in vlib.parse_sim_behaviours(r.out):
            key = json.dumps([x["l"] for x in h[:-1]])
            if key in seen:
                continue
            seen.add(key)
            steps = []
            for x in h:
                t, a = x["l"].split(":")
                st = {"a": a, "args": [t], "node": x["node"][t], "lt": x["lt"][t], "ln": x["ln"][t]}
                if a == "DDec" or (a == "DLoadNext" and x["pc"][t] in ("idle", "done")):
                    st["res"] = x["res"]
                steps.append(st)
            beh.append(steps)
        if len(beh) < num // 2:
            raise vlib.Infra("Gen_MSQueue produced too few walks (%d)" % len(beh))
        with lock:
            bfile, hfile, cfile = (ctx.tmp("q-%s-%s.ndjson" % (label, x)) for x in ("behaviours", "hist", "conf"))
        vlib.write_ndjson(bfile, beh)
        p = ctx.run([exe, "qreplay", bfile, hfile, cfile], timeout=1800)
        rs = json.loads(p.stdout.strip().splitlines()[-1])
        return {"label": label, "rs": rs, "hist": hfile, "conf": cfile, "avail": len(beh),
                "sample": [[s["a"], s["args"][0]] for s in beh[0]]}

    def s_pipeline(label, consts, nsel, inv):
        cfg = write_cfg(ctx, lock, "stream-%s.cfg" % label, stream_cfg(*consts, extra=inv))
        d = ctx.tlc_must_hold(SPEC, os.path.basename(cfg), module="MC_Stream", files={os.path.basename(cfg): cfg}, timeout=2400,
                              dump_dot=True, name="stream-" + label, workers=4)
        g = tlagraph.Graph.load(os.path.join(d.rundir, "graph.dot"))
        rng = vlib.random.Random("%d-%s" % (ctx.seed, label))
        walks, left = g.edge_cover(rng)
        if left:
            raise vlib.Infra("edge cover incomplete (Stream %s)" % label)
        sel = vlib.sample(rng, walks, nsel)
        beh = stream_behaviours(g, sel, consts[2], consts[3])
        r = s_replay(label, beh)
        r.update({"avail": len(walks), "distinct": d.distinct, "consts": consts,
                  "sample": [[x["a"], x["t"]] for x in beh[0]["steps"]]})
        return r

    def s_replay(label, beh):
        with lock:
            bfile, hfile, cfile = (ctx.tmp("s-%s-%s.ndjson" % (label, x)) for x in ("behaviours", "hist", "conf"))
        vlib.write_ndjson(bfile, beh)
        p = ctx.run([exe, "sreplay", bfile, hfile, cfile], timeout=1800)
        return {"label": label, "rs": json.loads(p.stdout.strip().splitlines()[-1]), "hist": hfile, "conf": cfile}

    def stress(kind, label, a, b, c, nh):
        with lock:
            t = ctx.tmp("%s-%s.ndjson" % (kind, label))
        ctx.run([exe, kind, str(a), str(b), str(c), str(nh), str(ctx.seed * 1000 + a * 10 + c), t], timeout=900)
        return {"label": kind + "-" + label, "hist": t}

    def churn(ntog, rounds, keep):
        """subscribe/unsubscribe churn of `ntog` subscribers on the one topic (its map is created and deleted all the time)
        around a probe subscriber doing Subscribe, Publish, Iterator, Unsubscribe; the driver writes out the rounds its
        screen flags plus `keep` random ones, StreamMon judges them."""
        with lock:
            t = ctx.tmp("schurn-%dk.ndjson" % ntog)
        p = ctx.run([exe, "schurn", str(ntog), str(rounds), "8", str(keep), str(ctx.seed * 100 + ntog), t, "-"], timeout=900)
        st = json.loads(p.stdout.strip().splitlines()[-1])
        return {"label": "schurn-%dk" % ntog, "hist": t, "st": st}

    if quick:
        q_dumps = [("1d", msq_cfg(["p1", "p2"], ["c1"], 1, 2, 3, extra=MSQ_INV), 1000),
                   ("2d", msq_cfg(["p1", "p2"], ["c1", "c2"], 1, 1, 3, extra=MSQ_INV), 800)]
        s_dumps = [("1s", (["p1", "p2"], 1, ["s1"], ["s1"], ["d1"], 2, ["k1"], 1), 600, STREAM_INV_1D),
                   ("2s", (["p1"], 1, ["s1", "s2"], ["s1"], ["d1", "d3"], 1, ["k1"], 1), 300, STREAM_INV_1D),
                   ("2d", (["p1", "p2"], 1, ["s1"], ["s1"], ["d1", "d2"], 2, [], 0), 300, STREAM_INV_2D)]
        nh = 150
    else:
        q_dumps = [("1d", msq_cfg(["p1", "p2"], ["c1"], 1, 2, 3, extra=MSQ_INV), 100000),
                   ("2d", msq_cfg(["p1", "p2"], ["c1", "c2"], 1, 1, 3, extra=MSQ_INV), 100000),
                   ("1d2m", msq_cfg(["p1", "p2"], ["c1"], 2, 2, 5, extra=MSQ_INV), 12000)]
        s_dumps = [("1s", (["p1", "p2"], 1, ["s1"], ["s1"], ["d1"], 2, ["k1"], 2), 10000, STREAM_INV_1D),
                   ("2s", (["p1"], 2, ["s1", "s2"], ["s1"], ["d1", "d3"], 1, ["k1"], 2), 5000, STREAM_INV_1D),
                   ("2d", (["p1", "p2"], 1, ["s1"], ["s1"], ["d1", "d2"], 2, [], 0), 100000, STREAM_INV_2D)]
        nh = 2500
    f_q = [pool.submit(q_pipeline, *x) for x in q_dumps]
    if not quick:
        f_q.append(pool.submit(q_sim_pipeline, "sim3e2d", 3000))
    f_s = [pool.submit(s_pipeline, *x) for x in s_dumps]
    f_w = pool.submit(s_replay, "witness", witnesses())
    f_qs = [pool.submit(stress, "qstress", "3e3m1d", 3, 3, 1, nh), pool.submit(stress, "qstress", "3e2m2d", 3, 2, 2, nh)]
    f_ss = [pool.submit(stress, "sstress", "3p3e1d", 3, 3, 1, nh), pool.submit(stress, "sstress", "3p2e2d", 3, 2, 2, nh),
            pool.submit(churn, 1, 5000 if quick else 40000, 15 if quick else 120),
            pool.submit(churn, 2, 5000 if quick else 40000, 15 if quick else 120)]

    # ------------------------------------------------------------------ thorough: larger exhaustive runs, stale-Defects guards
    f_big = []
    if not quick:
        bigs = [("MC_MSQueue", "mc-2e2m-2d2", msq_cfg(["p1", "p2"], ["c1", "c2"], 2, 2, 5, extra=MSQ_INV)),
                ("MC_MSQueue", "mc-3e1m-2d2", msq_cfg(["p1", "p2", "p3"], ["c1", "c2"], 1, 2, 4, extra=MSQ_INV)),
                ("MC_MSQueue", "mc-2e2m-1d4", msq_cfg(["p1", "p2"], ["c1"], 2, 4, 5, extra=MSQ_INV)),
                ("MC_Stream", "mcs-2p2e", stream_cfg(["p1", "p2"], 2, ["s1"], ["s1"], ["d1"], 2, ["k1"], 2, STREAM_INV_1D)),
                ("MC_Stream", "mcs-2k", stream_cfg(["p1"], 2, ["s1"], ["s1"], ["d1"], 1, ["k1", "k2"], 1, STREAM_INV_1D)),
                ("MC_Stream", "mcs-2d-k", stream_cfg(["p1", "p2"], 1, ["s1"], ["s1"], ["d1", "d2"], 2, ["k1"], 1, STREAM_INV_2D))]
        for module, name, text in bigs:
            cfg = write_cfg(ctx, lock, name + ".cfg", text)
            f_big.append(pool.submit(ctx.tlc_must_hold, SPEC, os.path.basename(cfg), module=module,
                                     files={os.path.basename(cfg): cfg}, timeout=2400, workers=6, name=name))
    f_asis = [pool.submit(ctx.tlc, SPEC, "MC_MSQueue_asis.cfg", module="MC_MSQueue", timeout=900, expect_fail=True, workers=2),
              pool.submit(ctx.tlc, SPEC, "MC_Stream_asis.cfg", module="MC_Stream", timeout=900, expect_fail=True, workers=2),
              pool.submit(ctx.tlc, SPEC, "MC_Stream_split.cfg", module="MC_Stream", timeout=900, expect_fail=True, workers=2)] \
        if not quick else []

    # ------------------------------------------------------------------ collect replays
    q_res = [f.result() for f in f_q]
    s_res = [f.result() for f in f_s]
    w_res = f_w.result()
    for r in q_res + s_res + [w_res]:
        rs = r["rs"]
        if rs["watchdog"]:
            # a thread neither parked nor finished in time (machine stall): its operations may still be running while the
            # next behaviour is recorded, so the histories of this batch cannot be judged
            raise vlib.Infra("puppet scheduler watchdog fired %d times in replay %s" % (rs["watchdog"], r["label"]))
        if r["label"] != "witness":
            total["walks_available"] += r["avail"]
            total["walks"] += rs["behaviours"]
            if len(samples) < 4 and r["label"] in ("1d", "1s"):
                samples.append({("msqueue_walk" if r in q_res else "stream_walk"): r["sample"]})
            if rs.get("drift_at"):
                drift_notes.append("replay drift (%s): %s" % (r["label"], rs["drift_at"]))
        total["drift"] += rs["drift"] if r["label"] != "witness" else 0
        total["unrep"] += rs["unreproduced"]
        total["pred"] += rs["pred_mismatch"]
        total["steps"] += rs["steps"]
        ctx.log("%s %-7s: %s%d walks, %d atomic steps, drift %d, unreproduced %d, pred-mismatch %d, watchdog %d"
                % ("qreplay" if r in q_res else "sreplay", r["label"],
                   ("model %d states, obligations hold; " % r["distinct"]) if "distinct" in r else "",
                   rs["behaviours"], rs["steps"], rs["drift"], rs["unreproduced"], rs["pred_mismatch"], rs["watchdog"]))

    # ------------------------------------------------------------------ judge (TLC): verdict monitors + conformance
    qs_res = [f.result() for f in f_qs]
    ss_res = [f.result() for f in f_ss]
    for r in ss_res:
        if "st" in r:
            st = r["st"]
            total["churn_iterations"] += st["iterations"]
            total["churn_rounds_flagged"] += st["flagged"]
            ctx.log("%-9s: %d rounds / %d probe iterations, %d toggles; %d rounds flagged by the screen, %d rounds handed to StreamMon"
                    % (r["label"], st["rounds"], st["iterations"], st["toggle_ops"], st["flagged"], st["written"]))
    f_lin = pool.submit(judge_fifo, ctx, lock, [("qreplay-" + r["label"], r["hist"]) for r in q_res] +
                        [(r["label"], r["hist"]) for r in qs_res])
    f_mon = pool.submit(judge_stream, ctx, lock, [("sreplay-" + r["label"], r["hist"]) for r in s_res + [w_res]] +
                        [(r["label"], r["hist"]) for r in ss_res])
    f_conf = [pool.submit(conformance, ctx, lock, None, "Trace_MSQueue", "Trace_MSQueue", [(r["label"], r["conf"]) for r in q_res])]
    for r in s_res:
        f_conf.append(pool.submit(conformance, ctx, lock, stream_cfg(*r["consts"], spec="TSpec"), "Trace_Stream",
                                  "Trace_Stream_" + r["label"], [(r["label"], r["conf"])]))
    verdicts = []
    for what, f in (("internal/queue", f_lin), ("eventstream", f_mon)):
        j = f.result()
        for label in sorted(j.n):
            total["hist"] += j.n[label]
            total["concurrent_ok"] += max(0, min(j.concurrent[label], j.n[label] - len(j.bad[label])))
            ctx.log("%-14s %-18s: histories %d, distinct with overlapping operations %d, violating %d"
                    % (what, label, j.n[label], j.concurrent[label], len(j.bad[label])))
            if label.startswith("qstress") or label.startswith("sstress") or label.startswith("schurn"):
                if len(samples) < 6:
                    a = [x for x in j.sources if x[0] == label][0][1]
                    samples.append({label: j.rows[a:a + 8]})
            if j.bad[label]:
                verdicts.append((what, label, j, j.bad[label]))
    for f in f_conf:
        d = f.result()
        if d:
            drift_notes.append(d)
    for f in f_big:
        r = f.result()
        ctx.log("design (thorough): %d distinct states, obligations hold" % r.distinct)
    for f, inv in zip(f_asis, ("MSQueue.tla with Defects={PoolReuse}", "Stream.tla with Defects={LengthWrap}",
                        "Stream.tla with Defects={SubscribeSplit}")):
        if f.result().violated is None:
            raise vlib.Infra("%s no longer violates its obligations (spec changed? the Defects branch is stale)" % inv)
    pool.shutdown()
    for d in drift_notes:
        ctx.log("conformance drift (not a verdict): " + d)
    if verdicts:
        what, label, j, bad = verdicts[0]
        nbad = sum(len(v[3]) for v in verdicts)
        a, b, detail = bad[0]
        rp = ctx.save_replay("%s-seed%d" % (label, ctx.seed), cut(ctx, lock, j.rows, (a, b), "violation-" + label))
        evidence(violations=nbad)
        raise vlib.Violation(pid, rp, "%s (%s): %d of %d recorded real histories violate C20; first (lines %d..%d of the batch): %s"
                             % (what, label, len(bad), j.n[label], a, b, detail))
    evidence()


# ------------------------------------------------------------------------------------------- stream level
GATES = ["es.pub.snap", "es.pub.active", "es.sig.active", "msq.enq.loadtail", "msq.enq.len", "es.iter.len", "msq.deq.loadhead",
         "msq.deq.len", "es.sub.active", "es.sub.self", "es.sub.topics", "es.unsub.self", "es.unsub.topics", "es.rm.topics",
         "es.rm.delete", "es.shutdown"]
S_AT = {"PCall": "call", "PSnap": "es.pub.snap", "PActive": "es.pub.active", "PSig": "es.sig.active", "PLink": "msq.enq.loadtail",
        "PCnt": "msq.enq.len", "ICall": "call", "ILen": "es.iter.len", "IDeq": "msq.deq.loadhead", "IDec": "msq.deq.len",
        "KSubscribe": "call", "KUnsubscribe": "call", "KRemove": "call", "KShutdown": "call", "KSubActive": "es.sub.active",
        "KSubSelf": "es.sub.self", "KSubTopics": "es.sub.topics", "KUnsubSelf": "es.unsub.self", "KUnsubTopics": "es.unsub.topics",
        "KRmTopics": "es.rm.topics", "KRmDelete": "es.rm.delete", "KShut": "es.shutdown"}
K_OP = {"KSubscribe": "sub", "KUnsubscribe": "unsub", "KRemove": "rm", "KShutdown": "shutdown"}


def drain_of(d):
    return "s2" if d == "d3" else "s1"      # = DrainMap of MC_Stream.tla


def strfn(txt):
    """'[k1 |-> "s1", k2 |-> ""]' -> dict"""
    return {m.group(1): m.group(2) for m in re.finditer(r'(\w+) \|-> "([^"]*)"', txt)}


def seqfn(txt):
    """'[p1 |-> <<"s1", "s2">>, p2 |-> <<>>]' -> dict of lists"""
    return {m.group(1): re.findall(r'"([^"]*)"', m.group(2)) for m in re.finditer(r'(\w+) \|-> <<([^>]*)>>', txt)}


def stream_cfg(pubs, npub, subs, init, drainers, niter, ctls, kops, extra="", spec="Spec"):
    q = lambda xs: ", ".join('"%s"' % x for x in xs)
    return ('SPECIFICATION %s\nCONSTANTS\n  Pubs = {%s}\n  NPub = %d\n  RankOf <- Ranks\n  Subs = {%s}\n  InitSubscribed = {%s}\n'
            '  Drainers = {%s}\n  DrainOf <- DrainMap\n  NIter = %d\n  Ctls = {%s}\n  KOps = %d\n  Defects = {}\nCHECK_DEADLOCK FALSE\n%s'
            % (spec, q(pubs), npub, q(subs), q(init), q(drainers), niter, q(ctls), kops, extra))


STREAM_INV_1D = "VIEW View\nINVARIANTS AtMostOnce NeverAfterUnsub NoLoss PublishOrder LenExact NoPanic LenSafe\n"
STREAM_INV_2D = "VIEW View\nINVARIANTS AtMostOnce NeverAfterUnsub NoLoss PublishOrder LenExact NoPanic\n"


def stream_behaviours(g, walks, subs, init):
    out = []
    for w in walks:
        progs = collections.defaultdict(list)
        steps = []
        cur = g.root
        npub = collections.Counter()
        for s in w:
            a, args = s["a"], s["args"]
            t = args[0]
            pre = g.state(cur)
            post = g.state(s["to"])
            x = {"t": t, "at": S_AT[a], "a": a}
            if a == "PCall":
                npub[t] += 1
                progs[t].append(["pub", int(t[1:]) * 10 + npub[t]])
            elif a == "ICall":
                progs[t].append(["iter", drain_of(t)])
            elif a in K_OP:
                progs[t].append([K_OP[a], args[1]])
                x["s"] = args[1]
            elif a in ("PActive", "PSig", "PLink", "PCnt"):
                x["obj"] = seqfn(pre["snap"])[t][0]
            elif a in ("ILen", "IDeq", "IDec"):
                x["obj"] = drain_of(t)
            elif a.startswith("K"):
                x["obj"] = strfn(pre["ks"])[t]
            if a in ("ILen", "IDeq", "IDec") and re.search(r'%s \|-> "(idle|done)"' % t, post["pc"]):
                x["res"] = [int(v) for v in re.findall(r'-?\d+', post["lastRes"])]
            steps.append(x)
            cur = s["to"]
        out.append({"subs": subs, "init": init, "progs": progs, "gates": GATES, "steps": steps})
    return out


# hand-written fine-grained schedules (regression witnesses of the two defects found; see docs/eventstream.md)
def witnesses():
    w1 = {"subs": ["s1"], "init": ["s1"], "gates": ["msq.enq.link"],
          "progs": {"p1": [["pub", 11]], "p2": [["pub", 21]], "d1": [["iter", "s1"], ["iter", "s1"]]},
          "steps": [{"t": "p1", "at": "call"},            # p1: Publish up to the link CAS, holding tail = the dummy
                    {"t": "p2", "at": "call"}, {"t": "p2", "at": "msq.enq.link"},   # p2: complete Publish
                    {"t": "d1", "at": "call"},            # Iterator returns [21]; with node recycling the dummy is reset
                    {"t": "p1", "at": "msq.enq.link"},    # p1 links behind the node it loaded as tail
                    {"t": "d1", "at": "call"}]}           # Iterator
    w2 = {"subs": ["s1"], "init": ["s1"], "gates": ["msq.enq.len", "msq.deq.len", "es.iter.len"],
          "progs": {"p1": [["pub", 11]], "p2": [["pub", 21]], "d1": [["iter", "s1"], ["iter", "s1"]], "d2": [["iter", "s1"]]},
          "steps": [{"t": "p1", "at": "call"}, {"t": "p1", "at": "msq.enq.len"},     # 11 linked and counted
                    {"t": "p2", "at": "call"},                                          # 21 linked, not yet counted
                    {"t": "d1", "at": "call"}, {"t": "d1", "at": "es.iter.len"},      # d1: n = 1, dequeues 11
                    {"t": "d2", "at": "call"}, {"t": "d2", "at": "es.iter.len"},      # d2: n = 1, dequeues 21
                    {"t": "d1", "at": "msq.deq.len"}, {"t": "d2", "at": "msq.deq.len"},   # len = -1
                    {"t": "d1", "at": "call"}, {"t": "d1", "at": "es.iter.len"}]}     # Iterator reads a negative length
    return [w1, w2]


