"""C45 / C46 - stream pipelines and junctions compute their list semantics.

spec -> code: TLC enumerates (Gen_Sem, modes linear / junction: every case of a finite family) and draws
(modes rlinear / rjunction: seeded random deeper cases) stream cases over the stage vocabulary of
specs/Stream/Sem.tla; harness/cmd/streams builds every case with the REAL stream API on int64 elements,
runs it on a real in-process actor system under a seeded execution configuration (demand window, fusion,
sink kind, worker jitter - none of which may change the result) and records what every sink observed.
code -> spec: TLC judges every recorded execution against Sem (Trace_Sem: the property monitor, verdict);
for C45 the per-message protocol trace of linear chains (verifhook "stream.recv") is validated step by
step against the transcription Demand.tla (Trace_Demand: conformance, drift only).
design: MC_Sem (Sem is a function, compositional, and its judge rejects loss / duplication / reordering /
missing completion / wrong error), MC_Demand (credit protocol: no emission without demand, conservation,
single completion, termination) for the repaired design and - as a reproduction of the recorded finding -
for the real code's defect branches."""
import json, os, re, threading, time
import vlib

PROPERTIES = ["C45", "C46"]
SPEC = "Stream"

# execution configurations: d/r = demand window forced on flows and sinks through the verif shim (0 = library
# default 224/64), fuse = stage fusion on/off.  They never change the expected result.
XS = [dict(d=0, r=0, fuse=1), dict(d=0, r=0, fuse=0), dict(d=1, r=0, fuse=1), dict(d=2, r=0, fuse=0),
      dict(d=2, r=1, fuse=1), dict(d=3, r=1, fuse=0), dict(d=1, r=0, fuse=0)]

STATEFUL = {"Sum", "Dedup", "BSum2", "BSum3", "BFlat2", "BFlat3", "Buf1", "Buf2", "OPar1", "OPar2", "OPar3", "Par2", "Par3", "FMC", "FMM2"}
DEMAND_STAGES = {"Inc", "Dbl", "Even", "Odd", "Dup", "Rep", "Err2", "Err3", "Err4", "BSum2", "BSum3", "Buf1", "Buf2"}


def lane(fn, box):
    def run():
        try:
            box["res"] = fn()
        except BaseException as e:  # re-raised in the main thread
            box["exc"] = e
    t = threading.Thread(target=run)
    t.start()
    return t


def gen_cases(ctx, cfg, name):
    r = ctx.tlc(SPEC, cfg, module="Gen_Sem", deadlock_check=False, timeout=900, workers=1, name=name)
    seen, cases = set(), []
    for c in vlib.parse_sim_behaviours(r.out, marker="CASE"):
        k = json.dumps(c, sort_keys=True)
        if k not in seen:
            seen.add(k)
            cases.append(c)
    if len(cases) != r.distinct:      # every initial state of Gen_Sem is one case: nothing may be lost in parsing
        raise vlib.Infra("case generation %s: TLC has %d cases, %d parsed from its output" % (cfg, r.distinct, len(cases)))
    cases.sort(key=lambda c: json.dumps(c, sort_keys=True))
    return cases


def assign_x(ctx, cases, first_id=1):
    for i, c in enumerate(cases):
        x = dict(ctx.rng.choice(XS))
        x["sink"] = ctx.rng.choice(["Collect", "ForEach"])
        x["jit"] = ctx.rng.choice([0, 1])
        c["x"] = x
        c["id"] = first_id + i
        # the same blueprint VALUE (sources + flows) is materialized twice - one after the other or concurrently -
        # for every case with a stateful stage and for a fifth of the others: state must not leak between
        # materializations.  Fan-outs are excluded (a Broadcast/Balance/Partition hub is single-use by design).
        stages = [st for sc in c["srcs"] for st in sc["p"]] + list(c["post"]) + [st for b in c["branches"] for st in b]
        if c["j"] not in ("Broadcast", "Balance", "Partition") and (any(st in STATEFUL for st in stages) or ctx.rng.random() < 0.2):
            c["reps"] = 2
            c["par"] = 1 if ctx.rng.random() < 0.25 else 0
    return cases


def run_sem(ctx, exe, cases, name, workers=12):
    cfile, rfile = ctx.tmp(name + "-cases.ndjson"), ctx.tmp(name + "-results.ndjson")
    vlib.write_ndjson(cfile, cases)
    p = ctx.run([exe, "sem", cfile, rfile, str(workers)], timeout=2400)
    stats = json.loads(p.stdout.strip().splitlines()[-1])
    return rfile, stats


def judge_one(ctx, rfile, nrows, name, timeout):
    mon = ctx.tlc(SPEC, "Trace_Sem.cfg", dfs=True, files={"results.ndjson": rfile}, timeout=timeout, heap="8g", name=name)
    if mon.depth != nrows + 1:
        raise vlib.Infra("monitor did not consume all results (%d of %d)" % (mon.depth - 1, nrows))
    tups = vlib.tuples(mon.out, "VERDICT")        # robust against TLC wrapping long tuples
    if len(tups) != mon.out.count('"VERDICT"'):
        raise vlib.Infra("monitor output: %d VERDICT tuples parsed, %d printed" % (len(tups), mon.out.count('"VERDICT"')))
    bad = {}
    for t in tups:
        if len(t) != 3 or not isinstance(t[0], int) or not isinstance(t[2], str):
            raise vlib.Infra("unparsable VERDICT tuple %r" % (t,))
        bad[t[0]] = t[2]
    return bad


def judge(ctx, rfile, name, timeout=1800, chunk=6000):
    """TLC evaluates Sem's Verdict on every recorded execution; returns (rows, {line: verdict}) for the non-ok lines.
    Large result files are judged in chunks, two TLC runs at a time."""
    rows = vlib.read_ndjson(rfile)
    if len(rows) <= chunk:
        return rows, judge_one(ctx, rfile, len(rows), name, timeout)
    parts = []
    for k in range(0, len(rows), chunk):
        f = ctx.tmp("%s-part%d.ndjson" % (name, k // chunk))
        vlib.write_ndjson(f, rows[k:k + chunk])
        parts.append((k, f, len(rows[k:k + chunk])))
    bad, boxes = {}, []
    for i in range(0, len(parts), 2):
        pair = []
        for (k, f, n) in parts[i:i + 2]:
            box = {}
            pair.append((k, box, lane(lambda f=f, n=n, k=k: judge_one(ctx, f, n, "%s-%d" % (name, k // chunk), timeout), box)))
            time.sleep(0.3)
        for (k, box, t) in pair:
            t.join()
            if "exc" in box:
                raise box["exc"]
            for line, v in box["res"].items():
                bad[k + line] = v
    return rows, bad


def describe(row):
    return json.dumps({k: row.get(k) for k in ("id", "j", "srcs", "post", "branches", "x", "reps", "par", "run", "outs", "errs", "done", "first", "runerr")},
                      separators=(",", ":"))


def classify(ctx, pid, rows, bad, tag):
    """Turns monitor verdicts into the check's verdict.  Returns (known_counts, transient, violations)."""
    known, transient, violations, unretried = {}, [], [], []
    for line, v in sorted(bad.items()):
        row = rows[line - 1]
        if v == "stall":
            if row.get("attempt") == 1 and row.get("superseded") == 1:
                # first attempt under load failed, the case completed correctly when re-run alone
                what = row.get("runerr") or "timeout"
                if "wire stage" in what and ctx.is_known("WireRace"):
                    known["WireRace"] = known.get("WireRace", 0) + 1
                    ctx.report_known("WireRace", "RunnableGraph.Run failed with %r for %s" % (what, describe(row)))
                elif "wire stage" in what:
                    violations.append((line, row, "Run() failed: " + what))
                else:
                    transient.append(dict(id=row["id"], what=what, case=describe(row)))
                continue
            if row.get("attempt") == 1:
                unretried.append((line, row, "a sink never completed (first attempt; retry budget exhausted)"))
            else:
                violations.append((line, row, "a sink never completed (time-out twice, the second time run alone with 30 s)"))
            continue
        ids = v.split("+")
        if v != "mismatch" and all(ctx.is_known(i) for i in ids):
            for i in ids:
                known[i] = known.get(i, 0) + 1
                ctx.report_known(i, "sink output explained only by defect branch %s of Sem: %s" % (i, describe(row)))
            continue
        violations.append((line, row, "sink output is not the list semantics (monitor verdict %s)" % v))
    if unretried:
        # more first-attempt time-outs than the driver's retry budget covers: deterministic only if a retried one stalled again
        if any("time-out twice" in why for (_, _, why) in violations):
            violations += unretried
        else:
            raise vlib.Infra("%d first-attempt time-outs beyond the retry budget and no confirmed stall (overloaded machine?): %s"
                             % (len(unretried), describe(unretried[0][1])))
    return known, transient, violations


def raise_violation(ctx, pid, rows, violations, cov, assumptions, tag):
    line, row, why = violations[0]
    f = ctx.tmp("violation.ndjson")
    vlib.write_ndjson(f, [r for (_, r, _) in violations[:50]])
    rp = ctx.save_replay("seed%d-%s" % (ctx.seed, tag), f)
    ctx.evidence("model_checking", cov, assumptions, violations=len(violations))
    raise vlib.Violation(pid, rp, "monitor: %s; case %s (%d violating executions)" % (why, describe(row), len(violations)))


def spin_witness(ctx, exe, pid):
    """Regression witness of the fixed finding StoppedStageSpinsWorker: 40 trivial pipelines, one after the other,
    on ONE actor system must all complete and leave the system idle."""
    rfile = ctx.tmp("spin-results.ndjson")
    p = ctx.run([exe, "spin", rfile, "40", "5000"], timeout=900)
    st = json.loads(p.stdout.strip().splitlines()[-1])
    ctx.log("spin witness: %s" % st)
    return rfile, st


def design_sem(ctx):
    r = ctx.tlc_must_hold(SPEC, "MC_Sem.cfg" if ctx.quick else "MC_Sem_t.cfg", module="MC_Sem", timeout=2400, workers=4,
                          deadlock_check=False, name="MC_Sem")
    ctx.log("design Sem: %d states, judge/semantics obligations hold" % r.distinct)
    return r.distinct


def design_demand(ctx):
    sfx = "" if ctx.quick else "_t"
    ok = ctx.tlc_must_hold(SPEC, "MC_Demand%s.cfg" % sfx, module="MC_Demand", timeout=2400, workers=4, deadlock_check=False,
                           name="MC_Demand")
    dc = ok
    if not ctx.quick:
        dc = ctx.tlc_must_hold(SPEC, "MC_Demand_dc%s.cfg" % sfx, module="MC_Demand", timeout=2400, workers=4, deadlock_check=False,
                               name="MC_Demand_dc")
        k3 = ctx.tlc_must_hold(SPEC, "MC_Demand_k3.cfg", module="MC_Demand", timeout=2400, workers=4, deadlock_check=False,
                               name="MC_Demand_k3")
        ctx.log("design Demand: chains of 3 stages, %d states OK" % k3.distinct)
    real = ctx.tlc(SPEC, "MC_Demand_real%s.cfg" % sfx, module="MC_Demand", timeout=2400, workers=4, deadlock_check=False,
                   expect_fail=True, name="MC_Demand_real")
    if real.violated != "CompletedCorrectly":
        raise vlib.Infra("Demand with the real code's defect branches should violate CompletedCorrectly (finding BatchNoDemand), got %r"
                         % real.violated)
    ctx.log("design Demand: repaired design %d states OK; +DoubleComplete %d states OK; real defects violate CompletedCorrectly as recorded"
            % (ok.distinct, dc.distinct))
    return ok.distinct


def demand_conformance(ctx, exe, lin_cases):
    """Protocol traces of linear chains vs Demand.tla (drift only)."""
    pool = [dict(c, reps=1, par=0) for c in lin_cases if c["srcs"][0]["p"] and all(s in DEMAND_STAGES for s in c["srcs"][0]["p"])]
    pool = vlib.sample(ctx.rng, pool, 70 if ctx.quick else 1500)
    cases = []
    for i, c in enumerate(pool):
        c = json.loads(json.dumps(c))
        c["x"]["fuse"] = 0           # every stage is its own actor
        c["x"]["sink"] = "ForEach"
        c["id"] = i + 1
        cases.append(c)
    if not cases:
        return dict(chains=0, events=0, drift="no chain in the demand vocabulary")
    cfile, tfile = ctx.tmp("demand-cases.ndjson"), ctx.tmp("trace.ndjson")
    vlib.write_ndjson(cfile, cases)
    p = ctx.run([exe, "demand", cfile, tfile], timeout=1800)
    st = json.loads(p.stdout.strip().splitlines()[-1])
    conf = ctx.tlc(SPEC, "Trace_Demand.cfg", dfs=True, files={"trace.ndjson": tfile}, timeout=2400, heap="8g", expect_fail=True,
                   name="Trace_Demand")
    drift = None
    if conf.violated:
        drift = "invariant %s violated on the real protocol trace at line %d" % (conf.violated, conf.depth)
    elif conf.error:
        drift = "TLC error on the trace: " + conf.error[:300]
    elif conf.depth != st["events"] + 1:
        rows = vlib.read_ndjson(tfile)
        at = rows[conf.depth - 1] if conf.depth - 1 < len(rows) else None
        drift = "trace rejected at line %d of %d: %s" % (conf.depth, st["events"], json.dumps(at)[:300])
    return dict(chains=len(cases), events=st["events"], drift=drift, timeouts=st["timeouts"])


def run(ctx, pid):
    quick = ctx.quick
    sfx = "q" if quick else "t"
    linear = pid == "C45"
    t0 = time.time()

    # ---- lane A: design-level model checking (runs while lane B generates, builds and executes)
    boxA = {}
    skip_design = os.environ.get("VERIF_STREAMS_SKIP_DESIGN") == "1"      # developer aid for mutant runs; never set by tools/check
    ta = lane(lambda: None if skip_design else (design_sem(ctx), design_demand(ctx) if linear else 0), boxA)
    time.sleep(0.3)

    # ---- lane C: build the driver meanwhile
    boxC = {}
    tc = lane(lambda: ctx.build("streams"), boxC)
    time.sleep(0.3)

    # ---- lane B: cases out of TLC
    if linear:
        exh = gen_cases(ctx, "Gen_linear_%s.cfg" % sfx, "gen-linear")
        rnd = gen_cases(ctx, "Gen_rlinear_%s.cfg" % sfx, "gen-rlinear")
    else:
        exh = gen_cases(ctx, "Gen_junction_%s.cfg" % sfx, "gen-junction")
        rnd = gen_cases(ctx, "Gen_rjunction_%s.cfg" % sfx, "gen-rjunction")
    if len(exh) < 500 or len(rnd) < 100:
        raise vlib.Infra("case generation produced too little (%d exhaustive, %d random)" % (len(exh), len(rnd)))
    cases = assign_x(ctx, exh + rnd)
    ctx.log("cases: %d exhaustive + %d random (%.0fs)" % (len(exh), len(rnd), time.time() - t0))

    tc.join()
    if "exc" in boxC:
        raise boxC["exc"]
    exe = boxC["res"]
    assumptions = [
        "elements are int64, stage parameters come from the fixed vocabulary of Sem.tla (harness/cmd/streams `via`); sources are stream.Of",
        "every case with a stateful stage (and a fifth of the others, fan-outs excepted) is materialized twice from the SAME blueprint value, "
        "sequentially or concurrently, each run judged on its own",
        "small demand windows are forced through the verif-tag shim VerifFlowDemand/VerifSinkDemand (public API reaches them only via Buffer(n) "
        "or > 224 buffered elements); the batch stage keeps the library window and an hour-long maxWait (size-driven chunking only)",
        "real executions are free-running (goakt's dispatcher schedules the stage actors); schedule diversity comes from the demand windows, "
        "jitter in parallel workers and 12 concurrent pipelines, not from a controlled scheduler",
        "a first-attempt time-out under load that succeeds when re-run alone is reported as transient, never as a violation",
    ]

    # ---- fixed finding StoppedStageSpinsWorker: must not come back
    spin_rows, spin_bad, spin_stats = [], {}, None
    if linear:
        sfile, spin_stats = spin_witness(ctx, exe, pid)
        spin_rows, spin_bad = judge(ctx, sfile, "Trace_Sem-spin", timeout=600)
        if spin_bad and spin_stats["idle_cpu_cores"] > 0.5:
            cov = {"evaluations": len(spin_rows), "distinct_nontrivial": 2, "rule": "spin witness: 40 sequential pipelines on one actor system",
                   "samples": [describe(spin_rows[0])], "spin": spin_stats}
            f = ctx.tmp("spin-violation.ndjson")
            vlib.write_ndjson(f, [spin_rows[l - 1] for l in sorted(spin_bad)][:10])
            rp = ctx.save_replay("seed%d-spin" % ctx.seed, f)
            ctx.evidence("model_checking", cov, assumptions, violations=len(spin_bad))
            raise vlib.Violation(pid, rp, "monitor: %d of 40 trivial pipelines run one after the other on one actor system never completed "
                                 "and the idle system burns %.1f cores (stopped stage actors keep dispatcher workers spinning: "
                                 "BoundedMailbox disposed with messages left)" % (len(spin_bad), spin_stats["idle_cpu_cores"]))
        if spin_bad:
            # pipelines that do not complete, but no spinning: not the fixed finding; the main run decides
            # (a stall is a violation only when confirmed on a second attempt run alone)
            ctx.log("spin witness: %d of 40 pipelines timed out without the idle-CPU signature: %s" % (len(spin_bad), spin_stats))

    # ---- real executions + monitor
    rfile, stats = run_sem(ctx, exe, cases, "sem")
    ctx.log("executed %d cases on the real stream package: %s (%.0fs)" % (len(cases), stats, time.time() - t0))
    rows, bad = judge(ctx, rfile, "Trace_Sem")
    known, transient, violations = classify(ctx, pid, rows, bad, "sem")
    if stats.get("skipped") and not violations:
        raise vlib.Infra("driver stopped after mass time-outs (%s) but no stall was confirmed on a second attempt" % stats)

    final = [r for r in rows if r.get("superseded") != 1]
    nontrivial = len({json.dumps([r["j"], r["srcs"], r["post"], r["branches"]], sort_keys=True) for r in final
                      if any(s["inp"] for s in r["srcs"]) and (any(s["p"] for s in r["srcs"]) or r["post"] or any(r["branches"]) or r["j"] != "Linear")})
    samples = [json.loads(describe(r)) for r in (final[0], final[len(final) // 2], final[-1])]
    cov = {
        "traces_validated_against_impl": len(final),
        "samples": samples,
        "evaluations": len(final), "distinct_nontrivial": nontrivial,
        "rule": ("every %s of the exhaustive family of Gen_Sem (%s) plus TLC-seeded random deeper cases, each executed once on the real stream "
                 "package under a seeded execution configuration; non-trivial = some non-empty input and at least one stage or a junction")
                % (("linear pipeline" if linear else "junction graph"), ("Gen_linear_%s.cfg" if linear else "Gen_junction_%s.cfg") % sfx),
        "exhaustive": True, "exhaustive_cases": len(exh), "random_cases": len(rnd),
        "driver": stats, "monitor_non_ok": len(bad),
        "repeated_blueprints": sum(1 for c in cases if c.get("reps", 1) > 1), "repeated_concurrently": sum(1 for c in cases if c.get("par") == 1), "known_finding_hits": known, "transient_first_attempt_failures": transient[:20],
        "transient_count": len(transient), "spin_witness": spin_stats,
    }

    conf = None
    if linear and not violations:
        conf = demand_conformance(ctx, exe, [c for c in cases if c["j"] == "Linear"])
        cov["demand_conformance"] = conf
        if conf.get("drift"):
            ctx.log("conformance drift (not a verdict): " + conf["drift"])
        else:
            ctx.log("conformance: %d chains, %d protocol events are behaviours of Demand.tla" % (conf["chains"], conf["events"]))
        cov["traces_validated_against_impl"] += conf["chains"]

    ta.join()
    if "exc" in boxA:
        if violations:
            ctx.log("design lane failed too: %s" % boxA["exc"])
        else:
            raise boxA["exc"]
    cov["states"], cov["transitions"] = ctx.states()
    if violations:
        raise_violation(ctx, pid, rows, violations, cov, assumptions, "sem")
    if transient:
        ctx.log("transient first-attempt failures (completed correctly when re-run alone): %d" % len(transient))
    ctx.evidence("model_checking", cov, assumptions)
