"""C48 — the TTL map behaves like a map with per-key expiry.

spec -> code: TLC enumerates every operation history of length D (BFS over Gen_TTLMap) and
random longer walks (-simulate); each is executed on the real xsync.TTLMap (fake clock).
code -> spec: the recorded trace is judged by TLC twice: Trace_TTLMapAbs (the property monitor:
abstract map with expiry vs. every real Get/ActiveLen result) and Trace_TTLMap (step-wise
conformance with the transcription incl. head / order / slot projection)."""
import json, os, re
import vlib

PROPERTIES = ["C48"]
SPEC = "TTLMap"


def gen_behaviours(ctx, cfg, simulate=None, timeout=600, seed=None):
    r = ctx.tlc(SPEC, cfg, module="Gen_TTLMap", simulate=simulate, deadlock_check=False, timeout=timeout,
                workers=1 if simulate else None, seed=seed, name=cfg[:-4] + ("-sim" if simulate else ""))
    return vlib.parse_sim_behaviours(r.out), r


def run(ctx, pid):
    quick = ctx.quick
    # 1. design: the transcription refines the abstract map in the bounded model
    mc = ctx.tlc_must_hold(SPEC, "MC_TTLMap.cfg" if quick else "MC_TTLMap_t.cfg", module="MC_TTLMap", timeout=1500)
    ctx.log("design: %d distinct states, refinement holds" % mc.distinct)

    # 2. behaviours from TLC
    exh, _ = gen_behaviours(ctx, "Gen_TTLMap.cfg" if quick else "Gen_TTLMap_t.cfg")
    sim, _ = gen_behaviours(ctx, "Sim_TTLMap.cfg", simulate="num=%d" % (1500 if quick else 20000), timeout=900)
    behaviours = exh + sim
    if len(exh) < 1000 or len(sim) < 100:
        raise vlib.Infra("behaviour generation produced too little (%d exhaustive, %d random)" % (len(exh), len(sim)))
    bfile = ctx.tmp("behaviours.ndjson")
    vlib.write_ndjson(bfile, behaviours)
    ctx.log("behaviours: %d exhaustive + %d random" % (len(exh), len(sim)))

    # 3. replay on the real TTLMap
    exe = ctx.build("ttlmap")
    trace = ctx.tmp("trace.ndjson")
    p = ctx.run([exe, "replay", bfile, trace, "2"], timeout=600)
    stats = json.loads(p.stdout.strip().splitlines()[-1])
    nlines = stats["events"]

    # 4a. property monitor (TLC judges real outputs against the abstract map)
    mon = ctx.tlc(SPEC, "Trace_TTLMapAbs.cfg", dfs=True, files={"trace.ndjson": trace}, timeout=1800, heap="12g")
    if mon.depth != nlines + 1:
        raise vlib.Infra("monitor did not consume the whole trace (%d of %d)" % (mon.depth - 1, nlines))
    mism = vlib.tuples(mon.out, "MISMATCH")
    if len(mism) != mon.out.count('"MISMATCH"'):
        raise vlib.Infra("unparsed MISMATCH lines in monitor output")
    # 4b. conformance with the transcription
    conf = ctx.tlc(SPEC, "Trace_TTLMap.cfg", dfs=True, files={"trace.ndjson": trace}, timeout=1800, heap="12g",
                   expect_fail=True)
    drift = None
    if conf.violated:
        drift = "invariant %s violated on the real trace at line %d" % (conf.violated, conf.depth)
    elif conf.depth != nlines + 1:
        drift = "trace rejected at line %d of %d" % (conf.depth, nlines)

    rows = vlib.read_ndjson(trace)
    samples = []
    i = 0
    for b in (behaviours[0], behaviours[len(exh) // 2], behaviours[-1]):
        samples.append([[o["op"], o["k"], o["v"]] for o in b])
    nontrivial = len({json.dumps([[o["op"], o["k"], o["v"]] for o in b]) for b in behaviours
                      if any(o["op"] == "Tick" for o in b) and any(o["op"] == "Set" for o in b)})
    cov = {
        "states": ctx.states()[0], "transitions": ctx.states()[1],
        "traces_validated_against_impl": len(behaviours),
        "samples": samples,
        "evaluations": len(behaviours), "distinct_nontrivial": nontrivial,
        "rule": "every operation history of length D over {Set,Get,Delete,Reset,Len,ActiveLen,Tick} (TLC BFS) plus TLC random "
                "walks of depth 14, each followed by Get of every key and ActiveLen; non-trivial = contains a Set and a Tick",
        "events_validated": nlines, "exhaustive_histories": len(exh), "random_walks": len(sim),
        "exhaustive": True, "conformance_drift": drift, "model_prediction_mismatches": stats["pred_mismatch"],
        "monitor_mismatches": len(mism),
    }
    assumptions = ["fake clock injected through the verif-tag shim NewTTLMapWithClock; single goroutine (the map is mutex-protected; "
                   "concurrency of the mutex itself is not explored)",
                   "exhaustive only up to the stated history length / bounds of MC_TTLMap"]
    if mism:
        line = int(mism[0][0])
        # cut the behaviour containing the failing line
        start = max(j for j in range(line) if rows[j]["op"] == "New")
        end = next((j for j in range(line, len(rows)) if rows[j]["op"] == "New"), len(rows))
        snippet = ctx.tmp("violation.ndjson")
        vlib.write_ndjson(snippet, rows[start:end])
        rp = ctx.save_replay("seed%d" % ctx.seed, snippet,)
        ctx.evidence("model_checking", cov, assumptions, violations=len(mism))
        raise vlib.Violation(pid, rp, "monitor: real %s returned %s, abstract map with expiry says %s (trace line %s; %d mismatches)"
                             % (mism[0][1], mism[0][3], mism[0][2], mism[0][0], len(mism)))
    if drift:
        ctx.log("conformance drift (not a verdict): " + drift)
    ctx.evidence("model_checking", cov, assumptions)
