"""C21 / C22 — routers and client balancers pick routees / nodes according to their strategy.

spec -> code: TLC checks the transcriptions (specs/Routing: Balancer.tla, Router.tla, Ring.tla) exhaustively
with a small counter width W (the whole counter cycle incl. the wrap), then enumerates behaviours at the
real width (Hi = Lo = 65536, counter preset just below 2^32) which the Go driver harness/cmd/routing
executes on the REAL client balancers / a real actor system with a router and recording routees / the real
consistent hash ring (counters preset through verif-tag shims).
code -> spec: each recorded NDJSON trace is judged by TLC twice: a monitor that only knows the observable
contract (verdict) and a conformance spec that reuses the transcription's actions at the real width (drift)."""
import json, os, re
import vlib

PROPERTIES = ["C21", "C22"]
SPEC = "Routing"


def _gen(ctx, cfg, module, simulate=None, timeout=600, name=None):
    r = ctx.tlc(SPEC, cfg, module=module, simulate=simulate, deadlock_check=False, timeout=timeout,
                workers=1 if simulate else None, name=name or (cfg[:-4] + ("-sim" if simulate else "")))
    return vlib.parse_sim_behaviours(r.out)


def _parallel(jobs, workers=3):
    """Run independent (light) TLC jobs concurrently; results in job order, first exception re-raised."""
    import concurrent.futures as cf
    with cf.ThreadPoolExecutor(max_workers=workers) as ex:
        futs = [ex.submit(j) for j in jobs]
        return [f.result() for f in futs]


def _expect_defect(ctx, cfg, module, want):
    """The Defects={d} variant of the design must violate the property (the model really distinguishes)."""
    r = ctx.tlc(SPEC, cfg, module=module, expect_fail=True, timeout=600, deadlock_check=False)
    if r.violated not in want:
        raise vlib.Infra("%s: expected a violation of %s with the defect switched on, got %r %s"
                         % (cfg, want, r.violated, (r.error or "")[:500]))
    return r


_RE_MISMATCH = re.compile(r'<<\s*"MISMATCH",\s*(\d+),\s*"([^"]*)",\s*"([^"]*)",\s*"((?:[^"\\]|\\.)*)",\s*"((?:[^"\\]|\\.)*)"\s*>>', re.S)


def _mismatches(out):
    """[line, op, kind, got, want] for every <<"MISMATCH", line, op, kind, got, want>> TLC printed (possibly over several lines)."""
    return [[int(m.group(1))] + [m.group(i) for i in range(2, 6)] for m in _RE_MISMATCH.finditer(out)]


def _cut(rows, line):
    """rows of the behaviour containing 1-based trace line `line` (from its New line)."""
    i = line - 1
    start = max(j for j in range(i + 1) if rows[j]["op"] == "New")
    end = next((j for j in range(i + 1, len(rows)) if rows[j]["op"] == "New"), len(rows))
    return rows[start:end], start + 1


def _judge(ctx, trace, nlines, mon_cfg, conf_cfg, tag):
    mon, conf = _parallel([
        lambda: ctx.tlc(SPEC, mon_cfg, dfs=True, files={"trace.ndjson": trace}, timeout=1500, heap="8g", name="mon-" + tag),
        lambda: ctx.tlc(SPEC, conf_cfg, dfs=True, files={"trace.ndjson": trace}, timeout=1500, heap="8g", expect_fail=True,
                        name="conf-" + tag)], workers=2)
    if mon.depth != nlines + 1:
        raise vlib.Infra("monitor %s did not consume the whole trace (%d of %d)" % (mon_cfg, mon.depth - 1, nlines))
    mism = _mismatches(mon.out)
    if len(mism) != mon.out.count('"MISMATCH"'):
        raise vlib.Infra("monitor %s printed %d MISMATCH tuples but %d were parsed" % (mon_cfg, mon.out.count('"MISMATCH"'), len(mism)))
    drift = None
    if conf.violated:
        drift = "%s: %s violated on the real trace at line %d" % (conf_cfg, conf.violated, conf.depth)
    elif conf.error:
        drift = "%s: TLC error at line %d: %s" % (conf_cfg, conf.depth, conf.error[:200])
    elif conf.depth != nlines + 1:
        drift = "%s: trace rejected at line %d of %d" % (conf_cfg, conf.depth, nlines)
    return mism, drift


# =============================================================================================== C22
def _long_run(n_nodes, calls, preset):
    ns = ["n1", "n2", "n3", "n4"][:n_nodes]
    return [{"op": "Init", "nodes": [], "node": "", "w": preset, "res": ""},
            {"op": "RRSet", "nodes": ns, "node": "", "w": 0, "res": ""},
            {"op": "RRNext", "nodes": [], "node": "", "w": 0, "res": "", "rep": calls}]


def run_c22(ctx, pid):
    q = ctx.quick
    # 1. design: repaired design holds for every counter value of a W-bit counter; the shipped code and the
    #    "obvious" unsigned-modulo repair violate it in the model
    mc_rr, mc_ll, d1, d2 = _parallel([
        lambda: ctx.tlc_must_hold(SPEC, "MC_Balancer_rr.cfg" if q else "MC_Balancer_rr_t.cfg", module="MC_Balancer", timeout=900),
        lambda: ctx.tlc_must_hold(SPEC, "MC_Balancer_ll.cfg" if q else "MC_Balancer_ll_t.cfg", module="MC_Balancer", timeout=1500),
        lambda: _expect_defect(ctx, "MC_Balancer_rr_WrapIndex.cfg", "MC_Balancer", ("PicksConfigured", "Cyclic")),
        lambda: _expect_defect(ctx, "MC_Balancer_rr_WrapOrder.cfg", "MC_Balancer", ("Cyclic",))], workers=2)
    ctx.log("design: rr %d states, ll/rnd %d states; WrapIndex violates %s, WrapOrder violates %s"
            % (mc_rr.distinct, mc_ll.distinct, d1.violated, d2.violated))

    # 2. behaviours (real width, presets just below the wrap)
    rr, ll, sim = _parallel([
        lambda: _gen(ctx, "Gen_Balancer_rr.cfg" if q else "Gen_Balancer_rr_t.cfg", "Gen_Balancer"),
        lambda: _gen(ctx, "Gen_Balancer_ll.cfg" if q else "Gen_Balancer_ll_t.cfg", "Gen_Balancer"),
        lambda: _gen(ctx, "Sim_Balancer_all.cfg", "Gen_Balancer", simulate="num=%d" % (40 if q else 3000), timeout=900)], workers=3)
    longs = [_long_run(3, 40000 if q else 400000, 20000), _long_run(4, 10000, 7), _long_run(2, 10000, 5001)]
    if len(rr) < 1000 or len(ll) < 500 or len(sim) < 50:
        raise vlib.Infra("behaviour generation produced too little (%d rr, %d ll, %d random)" % (len(rr), len(ll), len(sim)))
    behaviours = rr + ll + sim + longs
    bfile = ctx.tmp("behaviours.ndjson")
    vlib.write_ndjson(bfile, behaviours)
    ctx.log("behaviours: %d rr + %d ll (exhaustive) + %d random walks + %d long runs" % (len(rr), len(ll), len(sim), len(longs)))

    # 3. replay on the real balancers
    exe = ctx.build("routing")
    trace = ctx.tmp("trace.ndjson")
    p = ctx.run([exe, "balancer", bfile, trace], timeout=900)
    stats = json.loads(p.stdout.strip().splitlines()[-1])
    nlines = stats["events"]

    # 4. TLC judges the real trace
    mism, drift = _judge(ctx, trace, nlines, "Trace_BalancerMon.cfg", "Trace_Balancer.cfg", "bal")

    def crosses(b):  # non-trivial: a round-robin run that crosses the uint32 wrap, or a least-load run with a weight change
        k, n = b[0]["w"], sum(o.get("rep", 1) for o in b if o["op"] == "RRNext")
        return (k > 0 and n > k) or (any(o["op"] == "Weight" for o in b) and any(o["op"] == "LLNext" for o in b))
    nontrivial = len({json.dumps(b) for b in behaviours if crosses(b)})
    cov = {
        "states": ctx.states()[0], "transitions": ctx.states()[1],
        "traces_validated_against_impl": len(behaviours),
        "samples": [rr[len(rr) // 2], ll[len(ll) // 3], sim[0][:12]],
        "evaluations": len(behaviours), "distinct_nontrivial": nontrivial,
        "rule": "every operation history of the stated depth over {Set(list), Next, SetWeight} per balancer (TLC BFS at the real counter "
                "width, counter preset to 2^32-k, k in 0..3), TLC random walks of depth 40 over all three balancers, and three long "
                "round-robin runs; non-trivial = round-robin history whose calls cross the uint32 wrap, or least-load history with a "
                "weight change before a Next",
        "events_validated": nlines, "exhaustive_histories": len(rr) + len(ll), "random_walks": len(sim),
        "exhaustive": True, "conformance_drift": drift, "model_prediction_mismatches": stats["pred_mismatch"],
        "real_panics": stats["panics"], "monitor_mismatches": len(mism),
    }
    assumptions = ["64-bit platform (Go int is 64 bits: int(uint32) is never negative)",
                   "the uint32 counter is preset through the verif-tag shim VerifSetCounter instead of issuing 2^32 calls",
                   "node lists are non-empty and duplicate-free (Next on an empty pool panics by construction; not part of C22)",
                   "single goroutine per balancer (each Next holds the balancer's mutex for its whole body)"]
    if mism:
        rows = vlib.read_ndjson(trace)
        snippet, first = _cut(rows, mism[0][0])
        sp = ctx.tmp("violation.ndjson")
        vlib.write_ndjson(sp, snippet)
        rp = ctx.save_replay("seed%d" % ctx.seed, sp)
        ctx.evidence("model_checking", cov, assumptions, violations=len(mism))
        raise vlib.Violation(pid, rp, "monitor: real %s returned %r (%s check%s) at trace line %d = line %d of the saved behaviour; %d mismatches"
                             % (mism[0][1], mism[0][3], mism[0][2], (", expected " + mism[0][4]) if len(mism[0]) > 4 and mism[0][4] else "",
                                mism[0][0], mism[0][0] - first + 1, len(mism)))
    if drift:
        ctx.log("conformance drift (not a verdict): " + drift)
    ctx.evidence("model_checking", cov, assumptions)


# =============================================================================================== C21
def _dedupe(behaviours, fields):
    seen, out = set(), []
    for b in behaviours:
        sig = json.dumps([b[0]] + [[o.get(f) for f in fields] for o in b[1:]], sort_keys=True)
        if sig not in seen:
            seen.add(sig)
            out.append(b)
    return out


def _router_long(pool, preset, sends):
    return [{"op": "Init", "strategy": "rr", "pool": pool, "preset": preset, "vn": 2, "vh": {}, "kh": {"none": 0}, "hasher": "table"},
            {"op": "Send", "r": -1, "key": "-", "d": 0, "to": [], "rep": sends}]


def _with_default_hasher(b, vn=0):
    return [dict(b[0], hasher="default", vn=vn)] + b[1:]


def run_c21(ctx, pid):
    q = ctx.quick
    rfields = ("op", "r", "key", "d")
    # 1. design: the repaired design satisfies C21 in the bounded model (W-bit counter: the whole counter cycle);
    #    each deviation of the shipped code violates it in the model (quick: a seed-rotated pair of them)
    t = "" if q else "_t"
    holds = [("MC_Router_plain%s.cfg" % t, "MC_Router"), ("MC_Router_hash%s.cfg" % t, "MC_Router"),
             ("MC_Ring_static%s.cfg" % t, "MC_RingSys")]
    if not q:
        holds += [("MC_Router_hash_t2.cfg", "MC_Router"), ("MC_RingSys.cfg", "MC_RingSys")]
    defects = [("MC_Router_rr_WrapIndex.cfg", "MC_Router", ("NoDrop", "RoundRobin")),
               ("MC_Router_rr_MapOrder.cfg", "MC_Router", ("RoundRobin",)),
               ("MC_Router_rr_DeadRoutee.cfg", "MC_Router", ("NoDrop", "RoundRobin")),
               ("MC_Router_fr_DeadRoutee.cfg", "MC_Router", ("NoDrop", "FanOut")),
               ("MC_Router_hash_DeadRoutee.cfg", "MC_Router", ("NoDrop", "Sticky")),
               ("MC_Router_hash_RingTie.cfg", "MC_Router", ("Sticky",)),
               ("MC_Ring_static_RingTie.cfg", "MC_RingSys", ("Monotone",))]
    if q:
        k = ctx.seed % len(defects)
        defects = [defects[k], defects[(k + 3) % len(defects)]]
    jobs = [(lambda c=c, m=m: ctx.tlc_must_hold(SPEC, c, module=m, timeout=2400, deadlock_check=False)) for c, m in holds]
    jobs += [(lambda c=c, m=m, w=w: _expect_defect(ctx, c, m, w)) for c, m, w in defects]
    allres = _parallel(jobs, workers=3)
    res, dres = allres[:len(holds)], allres[len(holds):]
    ctx.log("design: %s hold; defect variants violate: %s"
            % (", ".join("%s %d states" % (c[3:-4], r.distinct) for (c, _), r in zip(holds, res)),
               ", ".join("%s->%s" % (c[3:-4], r.violated) for (c, _, _), r in zip(defects, dres))))

    # 2. behaviours from TLC (real counter width, presets just below the wrap)
    gens = _parallel([
        lambda: _gen(ctx, "Gen_Router%s.cfg" % t, "Gen_Router", timeout=1500) +
        ([] if q else _gen(ctx, "Gen_Router_hash_t.cfg", "Gen_Router", timeout=1500)),
        lambda: _gen(ctx, "Sim_Router.cfg", "Gen_Router", simulate="num=%d" % (60 if q else 1200)),
        lambda: _gen(ctx, "Gen_RingSys%s.cfg" % t, "Gen_RingSys"),
        lambda: _gen(ctx, "Sim_RingSys.cfg", "Gen_RingSys", simulate="num=%d" % (20 if q else 500)),
        # pools of 9..12 routees (the routee names cross the one-digit / two-digit boundary) with sends and resizes by one
        lambda: _gen(ctx, "Gen_Router_big.cfg", "Gen_Router") +
        ([] if q else _gen(ctx, "Sim_Router_big.cfg", "Gen_Router", simulate="num=300")),
    ], workers=3)
    bfs, sim, rg, srg, big = gens
    # concretisation of the big-pool histories: every Send stands for a burst of 13 routed messages (more than one full cycle)
    big = [[b[0]] + [dict(o, rep=13) if o["op"] == "Send" else o for o in b[1:]] for b in _dedupe(big, rfields)]
    if len(big) < 100:
        raise vlib.Infra("big-pool behaviour generation produced too little (%d)" % len(big))
    bfs = _dedupe(bfs, rfields)
    rr = [b for b in bfs if b[0]["strategy"] == "rr"]
    fo = [b for b in bfs if b[0]["strategy"] in ("fanout", "random")]
    hs = [b for b in bfs if b[0]["strategy"] == "hash"]
    srr = [b for b in sim if b[0]["strategy"] == "rr"]
    shs = [b for b in sim if b[0]["strategy"] == "hash"]
    sfo = [b for b in sim if b[0]["strategy"] in ("fanout", "random")]
    rg = _dedupe(rg, ("op", "members", "key"))
    n_exh = len(rr) + len(fo) + len(hs)
    if len(rr) < 500 or len(fo) < 200 or len(hs) < 500 or len(rg) < 500 or min(len(srr), len(shs), len(sfo), len(srg)) < 3:
        raise vlib.Infra("behaviour generation produced too little: %s" % [len(x) for x in gens])
    sampled = False
    if not q:  # thorough: cap what is replayed on the actor system (about 8 ms per behaviour)
        if len(rr) > 12000:
            rr, sampled = ctx.rng.sample(rr, 12000), True
        if len(fo) > 6000:
            fo, sampled = ctx.rng.sample(fo, 6000), True
        if len(hs) > 12000:
            hs, sampled = ctx.rng.sample(hs, 12000), True
        if len(rg) > 40000:
            rg, sampled = ctx.rng.sample(rg, 40000), True
    if q:  # quick: every round-robin history, seed-dependent samples of the (much larger) fan-out / hash sets
        if len(fo) > 500:
            fo, sampled = ctx.rng.sample(fo, 500), True
        if len(hs) > 1000:
            hs, sampled = ctx.rng.sample(hs, 1000), True
        if len(rg) > 3000:
            rg, sampled = ctx.rng.sample(rg, 3000), True
    longs = [_router_long(3, 3000, 8000)] if q else [_router_long(3, 30000, 80000), _router_long(4, 5, 20000), _router_long(2, 10001, 30000)]
    dflt = [_with_default_hasher(b) for b in shs] + [_with_default_hasher(b, vn=3) for b in shs[: len(shs) // 2]]
    router_b = rr + fo + hs + srr + shs + sfo + longs + dflt + big
    ring_b = rg + srg + [_with_default_hasher(b) for b in srg] + [_with_default_hasher(b, vn=1) for b in srg]
    rb, gb = ctx.tmp("router-behaviours.ndjson"), ctx.tmp("ring-behaviours.ndjson")
    vlib.write_ndjson(rb, router_b)
    vlib.write_ndjson(gb, ring_b)
    ctx.log("behaviours: router %d rr + %d fanout/random + %d hash (BFS%s) + %d random walks + %d long + %d default-hasher + %d big-pool (9..12 routees); ring %d BFS + %d walks (x3 hashers)"
            % (len(rr), len(fo), len(hs), ", sampled" if sampled else "", len(srr) + len(shs) + len(sfo), len(longs), len(dflt), len(big), len(rg), len(srg)))

    # 3. replay on a real actor system (router + recording routees) and on the real ring
    exe = ctx.build("routing")
    rtrace, gtrace = ctx.tmp("router-trace.ndjson"), ctx.tmp("ring-trace.ndjson")
    p = ctx.run([exe, "router", rb, rtrace], timeout=1800)
    rstats = json.loads(p.stdout.strip().splitlines()[-1])
    p = ctx.run([exe, "ring", gb, gtrace], timeout=600)
    gstats = json.loads(p.stdout.strip().splitlines()[-1])

    # 4. TLC judges the real traces
    (rm, rdrift), (gm, gdrift) = _parallel([
        lambda: _judge(ctx, rtrace, rstats["events"], "Trace_RouterMon.cfg", "Trace_Router.cfg", "router"),
        lambda: _judge(ctx, gtrace, gstats["events"], "Trace_RingMon.cfg", "Trace_RingSys.cfg", "ring")], workers=2)
    drift = "; ".join(d for d in (rdrift, gdrift) if d) or None
    if rstats["waits_expired"]:
        drift = (drift + "; " if drift else "") + "%d driver waits expired (quiescence not reached in time)" % rstats["waits_expired"]

    def nontrivial(b):
        ops = [o["op"] for o in b[1:]]
        sends = sum(o.get("rep", 1) for o in b[1:] if o["op"] == "Send")
        if b[0].get("strategy") == "rr":
            return (b[0]["preset"] > 0 and sends > b[0]["preset"]) or (sends >= 2 and any(x != "Send" for x in ops))
        return sends >= 1 and any(x in ("Die", "Fail", "Adjust") for x in ops)
    nt = len({json.dumps(b, sort_keys=True) for b in router_b if nontrivial(b)}) + \
        len({json.dumps(b, sort_keys=True) for b in ring_b if sum(1 for o in b[1:] if o["op"] == "RSet") >= 2})
    cov = {
        "states": ctx.states()[0], "transitions": ctx.states()[1],
        "traces_validated_against_impl": len(router_b) + len(ring_b),
        "samples": [rr[len(rr) // 2], hs[len(hs) // 2], srr[0][:14], rg[len(rg) // 2]],
        "evaluations": len(router_b) + len(ring_b), "distinct_nontrivial": nt,
        "rule": "router: every history of the stated depth over {Send(key), Die(r), Fail(r), Adjust(+-d), GetRoutees} per strategy (TLC BFS at the real "
                "counter width, round-robin counter preset to 2^32-k%s), TLC random walks of depth 20-30, long round-robin runs across the wrap, round-robin "
                "histories over {Send x13, Adjust(+-1)} on pools of 9..12 routees (names cross the decimal-width boundary), and the hash "
                "walks repeated with the default xxh3 hasher; ring: every set/lookup history of the stated depth plus random walks, each with the "
                "table hasher and the default hasher. Non-trivial = round-robin history that crosses the uint32 wrap or mixes sends with membership "
                "changes; other strategies: a send plus a routee death/failure/pool adjustment; ring: at least two set calls"
                % ("; seed-dependent samples of the larger BFS sets" if sampled else ""),
        "events_validated": rstats["events"] + gstats["events"], "exhaustive_histories_generated": n_exh + len(rg),
        "random_walks": len(srr) + len(shs) + len(sfo) + len(srg), "routed_messages": rstats["sent"],
        "exhaustive": not sampled, "conformance_drift": drift, "ring_prediction_mismatches": gstats["pred_mismatch"],
        "monitor_mismatches": len(rm) + len(gm),
    }
    assumptions = ["64-bit platform (Go int is 64 bits)",
                   "the router's uint32 counter is preset through the verif-tag shim VerifRouterSetCounter instead of routing 2^32 messages",
                   "operations are issued one at a time and the driver waits for quiescence (router and routee mailboxes empty, stopped routee "
                   "removed from the actor tree) before the next one: routee deaths racing an in-flight message are not explored",
                   "tiny hash spaces are injected through the public WithConsistentHashHasher option (table hasher); with the default xxh3 hasher "
                   "only the monitor applies (ownership is not computable in the model)",
                   "pool sizes <= 4 for the exhaustive histories; pools of 9..13 routees (two-digit routee names) for round-robin/fan-out/random with sends and resizes by one"]
    if rm or gm:
        which, trace, mism = ("router", rtrace, rm) if rm else ("ring", gtrace, gm)
        rows = vlib.read_ndjson(trace)
        snippet, first = _cut(rows, mism[0][0])
        sp = ctx.tmp("violation-%s.ndjson" % which)
        vlib.write_ndjson(sp, snippet)
        rpth = ctx.save_replay("seed%d" % ctx.seed, sp)
        ctx.evidence("model_checking", cov, assumptions, violations=len(rm) + len(gm))
        raise vlib.Violation(pid, rpth, "monitor (%s): %s check failed for %s at trace line %d (line %d of the saved behaviour): observed %s, expected %s; %d mismatches"
                             % (which, mism[0][2], mism[0][1], mism[0][0], mism[0][0] - first + 1, mism[0][3], mism[0][4], len(rm) + len(gm)))
    if drift:
        ctx.log("conformance drift (not a verdict): " + drift)
    ctx.evidence("model_checking", cov, assumptions)


def run(ctx, pid):
    if pid == "C22":
        return run_c22(ctx, pid)
    if pid == "C21":
        return run_c21(ctx, pid)
    raise vlib.Infra("unknown property " + pid)
