"""C21 / C22 — routers and client balancers pick routees / nodes according to their strategy.

spec -> code: TLC checks the transcriptions (specs/Routing: Balancer.tla, Router.tla, Ring.tla) exhaustively
with a small counter width W (the whole counter cycle incl. the wrap), then enumerates behaviours at the
real width (Hi = Lo = 65536, counter preset just below 2^32) which the Go driver harness/cmd/routing
executes on the REAL client balancers / a real actor system with a router and recording routees / the real
consistent hash ring (counters preset through verif-tag shims).
code -> spec: each recorded NDJSON trace is judged by TLC twice: a monitor that only knows the observable
contract (verdict) and a conformance spec that reuses the transcription's actions at the real width (drift)."""
import json, os, re
import vlib

PROPERTIES = ["C21", "C22"]
SPEC = "Routing"


def _gen(ctx, cfg, module, simulate=None, timeout=600, name=None):
    r = ctx.tlc(SPEC, cfg, module=module, simulate=simulate, deadlock_check=False, timeout=timeout,
                workers=1 if simulate else None, name=name or (cfg[:-4] + ("-sim" if simulate else "")))
    return vlib.parse_sim_behaviours(r.out)


def _expect_defect(ctx, cfg, module, want):
    """The Defects={d} variant of the design must violate the property (the model really distinguishes)."""
    r = ctx.tlc(SPEC, cfg, module=module, expect_fail=True, timeout=600)
    if r.violated not in want:
        raise vlib.Infra("%s: expected a violation of %s with the defect switched on, got %r %s"
                         % (cfg, want, r.violated, (r.error or "")[:500]))
    return r


_RE_MISMATCH = re.compile(r'<<\s*"MISMATCH",\s*(\d+),\s*"([^"]*)",\s*"([^"]*)",\s*"((?:[^"\\]|\\.)*)",\s*"((?:[^"\\]|\\.)*)"\s*>>', re.S)


def _mismatches(out):
    """[line, op, kind, got, want] for every <<"MISMATCH", line, op, kind, got, want>> TLC printed (possibly over several lines)."""
    return [[int(m.group(1))] + [m.group(i) for i in range(2, 6)] for m in _RE_MISMATCH.finditer(out)]


def _cut(rows, line):
    """rows of the behaviour containing 1-based trace line `line` (from its New line)."""
    i = line - 1
    start = max(j for j in range(i + 1) if rows[j]["op"] == "New")
    end = next((j for j in range(i + 1, len(rows)) if rows[j]["op"] == "New"), len(rows))
    return rows[start:end], start + 1


def _judge(ctx, trace, nlines, mon_cfg, conf_cfg, tag):
    mon = ctx.tlc(SPEC, mon_cfg, dfs=True, files={"trace.ndjson": trace}, timeout=1500, heap="8g", name="mon-" + tag)
    if mon.depth != nlines + 1:
        raise vlib.Infra("monitor %s did not consume the whole trace (%d of %d)" % (mon_cfg, mon.depth - 1, nlines))
    mism = _mismatches(mon.out)
    conf = ctx.tlc(SPEC, conf_cfg, dfs=True, files={"trace.ndjson": trace}, timeout=1500, heap="8g", expect_fail=True,
                   name="conf-" + tag)
    drift = None
    if conf.violated:
        drift = "%s: %s violated on the real trace at line %d" % (conf_cfg, conf.violated, conf.depth)
    elif conf.error:
        drift = "%s: TLC error at line %d: %s" % (conf_cfg, conf.depth, conf.error[:200])
    elif conf.depth != nlines + 1:
        drift = "%s: trace rejected at line %d of %d" % (conf_cfg, conf.depth, nlines)
    return mism, drift


# =============================================================================================== C22
def _long_run(n_nodes, calls, preset):
    ns = ["n1", "n2", "n3", "n4"][:n_nodes]
    return [{"op": "Init", "nodes": [], "node": "", "w": preset, "res": ""},
            {"op": "RRSet", "nodes": ns, "node": "", "w": 0, "res": ""},
            {"op": "RRNext", "nodes": [], "node": "", "w": 0, "res": "", "rep": calls}]


def run_c22(ctx, pid):
    q = ctx.quick
    # 1. design: repaired design holds for every counter value of a W-bit counter; the shipped code and the
    #    "obvious" unsigned-modulo repair violate it in the model
    mc_rr = ctx.tlc_must_hold(SPEC, "MC_Balancer_rr.cfg" if q else "MC_Balancer_rr_t.cfg", module="MC_Balancer", timeout=900)
    mc_ll = ctx.tlc_must_hold(SPEC, "MC_Balancer_ll.cfg" if q else "MC_Balancer_ll_t.cfg", module="MC_Balancer", timeout=1500)
    d1 = _expect_defect(ctx, "MC_Balancer_rr_WrapIndex.cfg", "MC_Balancer", ("PicksConfigured", "Cyclic"))
    d2 = _expect_defect(ctx, "MC_Balancer_rr_WrapOrder.cfg", "MC_Balancer", ("Cyclic",))
    ctx.log("design: rr %d states, ll/rnd %d states; WrapIndex violates %s, WrapOrder violates %s"
            % (mc_rr.distinct, mc_ll.distinct, d1.violated, d2.violated))

    # 2. behaviours (real width, presets just below the wrap)
    rr = _gen(ctx, "Gen_Balancer_rr.cfg" if q else "Gen_Balancer_rr_t.cfg", "Gen_Balancer")
    ll = _gen(ctx, "Gen_Balancer_ll.cfg" if q else "Gen_Balancer_ll_t.cfg", "Gen_Balancer")
    sim = _gen(ctx, "Sim_Balancer_all.cfg", "Gen_Balancer", simulate="num=%d" % (40 if q else 3000), timeout=900)
    longs = [_long_run(3, 40000 if q else 400000, 20000), _long_run(4, 10000, 7), _long_run(2, 10000, 5001)]
    if len(rr) < 1000 or len(ll) < 500 or len(sim) < 50:
        raise vlib.Infra("behaviour generation produced too little (%d rr, %d ll, %d random)" % (len(rr), len(ll), len(sim)))
    behaviours = rr + ll + sim + longs
    bfile = ctx.tmp("behaviours.ndjson")
    vlib.write_ndjson(bfile, behaviours)
    ctx.log("behaviours: %d rr + %d ll (exhaustive) + %d random walks + %d long runs" % (len(rr), len(ll), len(sim), len(longs)))

    # 3. replay on the real balancers
    exe = ctx.build("routing")
    trace = ctx.tmp("trace.ndjson")
    p = ctx.run([exe, "balancer", bfile, trace], timeout=900)
    stats = json.loads(p.stdout.strip().splitlines()[-1])
    nlines = stats["events"]

    # 4. TLC judges the real trace
    mism, drift = _judge(ctx, trace, nlines, "Trace_BalancerMon.cfg", "Trace_Balancer.cfg", "bal")

    def crosses(b):  # non-trivial: a round-robin run that crosses the uint32 wrap, or a least-load run with a weight change
        k, n = b[0]["w"], sum(o.get("rep", 1) for o in b if o["op"] == "RRNext")
        return (k > 0 and n > k) or (any(o["op"] == "Weight" for o in b) and any(o["op"] == "LLNext" for o in b))
    nontrivial = len({json.dumps(b) for b in behaviours if crosses(b)})
    cov = {
        "states": ctx.states()[0], "transitions": ctx.states()[1],
        "traces_validated_against_impl": len(behaviours),
        "samples": [rr[len(rr) // 2], ll[len(ll) // 3], sim[0][:12]],
        "evaluations": len(behaviours), "distinct_nontrivial": nontrivial,
        "rule": "every operation history of the stated depth over {Set(list), Next, SetWeight} per balancer (TLC BFS at the real counter "
                "width, counter preset to 2^32-k, k in 0..3), TLC random walks of depth 40 over all three balancers, and three long "
                "round-robin runs; non-trivial = round-robin history whose calls cross the uint32 wrap, or least-load history with a "
                "weight change before a Next",
        "events_validated": nlines, "exhaustive_histories": len(rr) + len(ll), "random_walks": len(sim),
        "exhaustive": True, "conformance_drift": drift, "model_prediction_mismatches": stats["pred_mismatch"],
        "real_panics": stats["panics"], "monitor_mismatches": len(mism),
    }
    assumptions = ["64-bit platform (Go int is 64 bits: int(uint32) is never negative)",
                   "the uint32 counter is preset through the verif-tag shim VerifSetCounter instead of issuing 2^32 calls",
                   "node lists are non-empty and duplicate-free (Next on an empty pool panics by construction; not part of C22)",
                   "single goroutine per balancer (each Next holds the balancer's mutex for its whole body)"]
    if mism:
        rows = vlib.read_ndjson(trace)
        snippet, first = _cut(rows, mism[0][0])
        sp = ctx.tmp("violation.ndjson")
        vlib.write_ndjson(sp, snippet)
        rp = ctx.save_replay("seed%d" % ctx.seed, sp)
        ctx.evidence("model_checking", cov, assumptions, violations=len(mism))
        raise vlib.Violation(pid, rp, "monitor: real %s returned %r (%s check%s) at trace line %d = line %d of the saved behaviour; %d mismatches"
                             % (mism[0][1], mism[0][3], mism[0][2], (", expected " + mism[0][4]) if len(mism[0]) > 4 and mism[0][4] else "",
                                mism[0][0], mism[0][0] - first + 1, len(mism)))
    if drift:
        ctx.log("conformance drift (not a verdict): " + drift)
    ctx.evidence("model_checking", cov, assumptions)


def run(ctx, pid):
    if pid == "C22":
        return run_c22(ctx, pid)
    raise vlib.Infra("not implemented: " + pid)
