"""C07 -- failures are handled by exactly the configured supervision directive.

spec -> code: TLC generates behaviours of the code-shaped model specs/Supervision/Supervise.tla
(a supervisor configuration + a sequence of failures / time steps / reinstatements over the actor
family g -- p -- c1,c2): every history of length D over a core configuration set (BFS) and random
longer walks over a seeded sample of the whole configuration domain (-simulate).  The same runs
check the design obligation `Conforms` (the asynchronous model agrees with the sequential contract
SupOracle!Fail whenever the family is quiescent).  harness/cmd/supervision executes every behaviour
on a REAL actor system with faulty test actors.
code -> spec: the recorded trace is judged by TLC twice: SupMonitor (the property monitor: contract
vs. every observation made at quiescence -> VIOLATION) and Trace_Supervise (step-wise conformance of
the recorded internal supervision steps and projected state with the model -> drift only)."""
import json, os, threading
import vlib

PROPERTIES = ["C07"]
SPEC = "Supervision"

DIRS = ["Stop", "Resume", "Restart", "Escalate"]
KNOWN_IDS = {"StaleTerminatedDeletesLiveNode"}


def tla_rec(d):
    def v(x):
        if isinstance(x, bool):
            return "TRUE" if x else "FALSE"
        if isinstance(x, int):
            return str(x)
        return '"%s"' % x
    return "[" + ", ".join("%s |-> %s" % (k, v(x)) for k, x in d.items()) + "]"


def sample_module(ctx, n):
    """A seeded sample of raw configurations of the whole generated domain (TLC filters the canonical
    ones); the any-error / typed / late / budget dimensions are biased towards the interesting values."""
    r = ctx.rng
    cfgs = []
    for _ in range(n):
        typed = r.choice(DIRS + ["none", "Restart"])
        any_ = r.choice(DIRS + ["none", "none", "none", "Restart"])
        late = any_ != "none" and typed != "none" and r.random() < 0.5
        ptyped = "default" if any_ != "none" else r.choice(["default", "default", "Restart", "Resume", "Escalate"])
        c = {"strat": r.choice(["one", "all", "all"]), "typed": typed, "ptyped": ptyped, "any": any_, "late": late,
             "max": r.choice([0, 1, 1, 2]), "win": r.choice(["zero", "short", "short", "long"]), "backoff": r.random() < 0.25, "mix": r.random() < 0.35}
        cfgs.append(c)
    pcs = [{"dir": d, "onsig": o} for d in DIRS for o in ("ignore", "fail")]
    path = ctx.tmp("GenSample.tla")
    with open(path, "w") as f:
        f.write("---- MODULE GenSample ----\nRawConfigs == {\n  %s }\nRawPConfigs == {\n  %s }\n====\n"
                % (",\n  ".join(tla_rec(c) for c in cfgs), ",\n  ".join(tla_rec(c) for c in pcs)))
    return path


def gen(ctx, cfg, simulate=None, files=None, timeout=900, name=None):
    r = ctx.tlc(SPEC, cfg, module="Gen_Supervise", simulate=simulate, deadlock_check=False, timeout=timeout,
                workers=1 if simulate else None, files=files, name=name or cfg[:-4], expect_fail=False)
    if r.violated:
        raise vlib.Infra("design-level check failed while generating: %s violates %s\n%s"
                         % (cfg, r.violated, r.counterexample()[:3000]))
    return vlib.parse_sim_behaviours(r.out), r


def witnesses():
    """Hand-written OVERLAP witnesses (the generated behaviours only act at quiescence): a failure whose directive
    is Restart with a long backoff delay leaves restartChild goroutines pending; while they sleep a sibling fails
    with a Stop directive under one-for-all.  The decisions carried out in order leave the group stopped; a pending
    restart that resurrects the stopped actors (finding PendingRestartResurrectsStopped) leaves it running."""
    w = []
    for typed, ptyped, first, second in (("Restart", "default", ("c1", "A"), ("c2", "P")),
                                         ("Restart", "default", ("c2", "A"), ("c1", "P")),
                                         ("Stop", "Restart", ("c1", "P"), ("c2", "A"))):
        cfg = {"strat": "all", "typed": typed, "ptyped": ptyped, "any": "none", "late": False, "max": 0, "win": "short",
               "backoff": True, "mix": False, "delayms": 1500}
        w.append({"cfg": cfg, "pcfg": {"dir": "Stop", "onsig": "ignore"}, "kids": ["c1", "c2"],
                  "ops": [{"op": "Fault", "a": first[0], "e": first[1]},
                          {"op": "Fault", "a": second[0], "e": second[1], "when": "pending"}]})
    return w


def key(b):
    return json.dumps([b["cfg"], b["pcfg"], [[o["op"], o.get("a", ""), o.get("e", "")] for o in b["ops"]]], sort_keys=True)


def replay(ctx, pid, path):
    """./tools/check C07 --replay <path>: re-execute the saved behaviour of a violation on the current tree and judge it
    with the monitor (path = the saved trace snippet or the behaviour file next to it)."""
    import glob
    bf = path
    if not path.endswith("behaviour.json"):
        prefix = os.path.basename(path).split("-")[0]
        cands = sorted(glob.glob(os.path.join(os.path.dirname(os.path.abspath(path)), prefix + "-*behaviour.json")))
        if not cands:
            raise vlib.Infra("no behaviour file next to %s" % path)
        bf = cands[-1]
    with open(bf) as f:
        b = json.load(f)
    bfile = ctx.tmp("behaviours.ndjson")
    vlib.write_ndjson(bfile, [b])
    exe = ctx.build("supervision")
    trace = ctx.tmp("trace.ndjson")
    p = ctx.run([exe, "replay", bfile, trace, "1"], timeout=300)
    nlines = json.loads(p.stdout.strip().splitlines()[-1])["events"]
    mon = ctx.tlc(SPEC, "SupMonitor.cfg", dfs=True, files={"trace.ndjson": trace}, timeout=600, expect_fail=True)
    if mon.error or mon.violated or mon.depth != nlines + 1:
        raise vlib.Infra("monitor did not consume the whole trace")
    mism = vlib.tuples(mon.out, "MISMATCH")
    if len(mism) != mon.out.count('"MISMATCH"'):
        raise vlib.Infra("unparsed MISMATCH lines in monitor output")
    if vlib.tuples(mon.out, "NOTQUIET"):
        raise vlib.Infra("the behaviour could not be judged (no quiescence / overlap missed)")
    ctx.log("replayed %s: %d trace lines, %d mismatches" % (bf, nlines, len(mism)))
    if mism:
        rp = ctx.save_replay("replay-seed%d" % ctx.seed, trace, bf)
        raise vlib.Violation(pid, rp, "monitor: trace line %d: actor %s field %s expected %s observed %s (%d mismatches)"
                             % (mism[0][0], mism[0][2], mism[0][3], mism[0][4], mism[0][5], len(mism)))


def run(ctx, pid):
    if getattr(ctx, "replay", None):
        return replay(ctx, pid, ctx.replay)
    quick = ctx.quick
    # 1. behaviours out of TLC (+ design-level obligation Conforms on the generated state space); the exhaustive
    #    and the random generator run side by side
    sample = sample_module(ctx, 60 if quick else 400)
    out = {}

    def g(name, *a, **kw):
        try:
            out[name] = gen(ctx, *a, **kw)
        except Exception as e:      # noqa
            out[name] = e
    def mc(name, cfg, module, must, **kw):
        """design-level obligations: `must` = None (holds) or the invariant that a stale Defects set would no longer violate"""
        try:
            r = ctx.tlc(SPEC, cfg, module=module, expect_fail=must is not None, name=cfg[:-4], **kw)
            if must is None and r.violated:
                raise vlib.Infra("design-level check failed: %s violates %s\n%s" % (cfg, r.violated, r.counterexample()[:3000]))
            if must is not None and r.violated != must:
                raise vlib.Infra("stale Defects set: %s should violate %s, got %s" % (cfg, must, r.violated or r.error or "no violation"))
            out[name] = r
        except Exception as e:      # noqa
            out[name] = e
    th = [threading.Thread(target=g, args=("exh", "Gen_Supervise.cfg"), kwargs={"timeout": 900 if quick else 3000}),
          threading.Thread(target=g, args=("sim", "Gen_Supervise_sim.cfg" if quick else "Gen_Supervise_sim_t.cfg"),
                           kwargs={"simulate": "num=%d" % (190 if quick else 4000), "files": {"GenSample.tla": sample},
                                   "timeout": 900 if quick else 3300}),
          ]
    if not quick:
        # overlapping failures in the model: a pending restart does not resurrect a stopped child (repaired design)
        th += [threading.Thread(target=mc, args=("ov", "MC_SuperviseOv_fixed.cfg", "MC_SuperviseOv", None), kwargs={"timeout": 900, "workers": 2}),
               threading.Thread(target=g, args=("exh3", "Gen_Supervise_t.cfg"), kwargs={"timeout": 3300}),
               threading.Thread(target=mc, args=("ovd", "MC_SuperviseOv_defect.cfg", "MC_SuperviseOv", "NoResurrection"), kwargs={"timeout": 900, "workers": 2}),
               threading.Thread(target=mc, args=("dw", "MC_Supervise_dwrace.cfg", "MC_Supervise", "Conforms"), kwargs={"timeout": 1800, "workers": 2})]
    for t in th:
        t.start()
    for t in th:
        t.join()
    if not quick:
        # larger design-level runs, two at a time: 3 children over the whole configuration domain; 3 operations
        th = [threading.Thread(target=mc, args=("mct", "MC_Supervise_t.cfg", "MC_Supervise", None), kwargs={"timeout": 3400, "workers": 4}),
              threading.Thread(target=mc, args=("mct3", "MC_Supervise_t3.cfg", "MC_Supervise", None), kwargs={"timeout": 3400, "workers": 4})]
        for t in th:
            t.start()
        for t in th:
            t.join()
    for k in out:
        if isinstance(out[k], Exception):
            raise out[k] if isinstance(out[k], vlib.Infra) else vlib.Infra(repr(out[k]))
    (exh, r1), (sim, r2) = out["exh"], out["sim"]
    # one BFS run generates both exhaustive families: length 2 over the core set, length 4 with a Tick over the window set
    win = [b for b in exh if len(b["ops"]) == 4]
    exh = [b for b in exh if len(b["ops"]) == 2]
    exh3 = out["exh3"][0] if not quick else []
    seen, uniq = set(), []
    for b in sim:
        k = key(b)
        if k not in seen:
            seen.add(k)
            uniq.append(b)
    sim = uniq
    if len(exh) < 2000 or len(sim) < 100 or len(win) < 500:
        raise vlib.Infra("behaviour generation produced too little (%d + %d exhaustive, %d random)" % (len(exh), len(win), len(sim)))
    n_exh_all = len(exh) + len(win)
    if quick:   # the quick tier replays a seeded sample of the exhaustive sets
        exh = vlib.sample(ctx.rng, exh, 1000) + vlib.sample(ctx.rng, win, 250)
        sim = sim[:180]
    else:       # thorough: every history of length 2, a seeded sample of those of length 3, the random walks
        n_exh3_all = len(exh3)
        exh3 = vlib.sample(ctx.rng, exh3, 7000)
        sim = sim[:3000]
        ctx.log("design (thorough): MC_Supervise_t %d, MC_Supervise_t3 %d distinct states, Conforms holds; %d histories of length 3 generated"
                % (out["mct"].distinct, out["mct3"].distinct, n_exh3_all))
        exh = exh + win + exh3
    wit = witnesses()
    behaviours = exh + sim + wit
    bfile = ctx.tmp("behaviours.ndjson")
    vlib.write_ndjson(bfile, behaviours)
    ctx.log("behaviours: %d of %d exhaustive + %d random + %d overlap witnesses; design: %d + %d states, Conforms holds"
            % (len(exh), n_exh_all, len(sim), len(wit), r1.distinct, r2.generated))

    # 2. replay on the real actor system
    exe = ctx.build("supervision")
    trace = ctx.tmp("trace.ndjson")
    p = ctx.run([exe, "replay", bfile, trace, "10" if quick else "12"], timeout=900 if quick else 3000)
    stats = json.loads(p.stdout.strip().splitlines()[-1])
    nlines = stats["events"]
    if stats["behaviours"] != len(behaviours):
        raise vlib.Infra("driver executed %d of %d behaviours" % (stats["behaviours"], len(behaviours)))

    # 3. judge by TLC: property monitor and conformance (in two halves), concurrently
    rows = vlib.read_ndjson(trace)
    starts = [i for i, r in enumerate(rows) if r["op"] == "New"]       # 0-based line index of every behaviour
    if len(starts) != len(behaviours):
        raise vlib.Infra("trace has %d behaviours, expected %d" % (len(starts), len(behaviours)))
    conf_end = starts[len(behaviours) - len(wit)]      # the overlap witnesses are judged by the monitor only
    nparts = 2 if quick else 4
    njudged = len(behaviours) - len(wit)
    cuts = [starts[njudged * k // nparts] for k in range(nparts)] + [conf_end]
    parts = []
    with open(trace) as f:
        lines = f.readlines()
    for k in range(nparts):
        lo, hi = cuts[k], cuts[k + 1]
        pth = ctx.tmp("trace_%d.ndjson" % k)
        with open(pth, "w") as f:
            f.writelines(lines[lo:hi])
        parts.append((str(k), pth, lo, hi - lo))
    res = {}

    def tlc_trace(name, cfg, path):
        try:
            res[name] = ctx.tlc(SPEC, cfg, dfs=True, files={"trace.ndjson": path}, timeout=1500 if quick else 3400,
                                heap="12g" if name == "mon" else "6g", expect_fail=True, name=cfg[:-4] + "-" + name)
        except Exception as e:          # noqa
            res[name] = e
    th = [threading.Thread(target=tlc_trace, args=("mon", "SupMonitor.cfg", trace))]
    th += [threading.Thread(target=tlc_trace, args=("conf" + n, "Trace_Supervise.cfg", pth)) for n, pth, _, _ in parts]
    for t in th:
        t.start()
    for t in th:
        t.join()
    for k in res:
        if isinstance(res[k], Exception):
            raise res[k] if isinstance(res[k], vlib.Infra) else vlib.Infra(repr(res[k]))
    mon = res["mon"]
    if mon.error or mon.violated or mon.depth != nlines + 1:
        raise vlib.Infra("monitor did not consume the whole trace (%d of %d): %s" % (mon.depth - 1, nlines, (mon.error or mon.violated)))
    mism = vlib.tuples(mon.out, "MISMATCH")
    known = vlib.tuples(mon.out, "KNOWN")
    notq = vlib.tuples(mon.out, "NOTQUIET")
    for tag, lst in (("MISMATCH", mism), ("KNOWN", known), ("NOTQUIET", notq)):
        if len(lst) != mon.out.count('"%s"' % tag):
            raise vlib.Infra("unparsed %s lines in monitor output" % tag)

    def beh_of(line):          # 1-based trace line -> behaviour index
        lo, hi = 0, len(starts) - 1
        while lo < hi:
            mid = (lo + hi + 1) // 2
            if starts[mid] <= line - 1:
                lo = mid
            else:
                hi = mid - 1
        return lo

    # conformance: which Obs lines did the model accept
    drift = None
    drifted = set()
    oks = set()
    for n, pth, off, cnt in parts:
        c = res["conf" + n]
        if c.error or c.violated or c.depth != cnt + 1:
            drift = "conformance run %s incomplete: %s (depth %d of %d)" % (n, c.error or c.violated, c.depth, cnt)
        oks |= {t[0] + off for t in vlib.tuples(c.out, "OK")}
    if drift is None:
        for i, r in enumerate(rows[:conf_end]):
            if r["op"] == "Obs" and (i + 1) not in oks:
                drifted.add(beh_of(i + 1))
        if drifted:
            first = min(drifted)
            drift = "%d of %d behaviours rejected by Trace_Supervise (first: behaviour %d, %s)" % (
                len(drifted), len(behaviours), first, json.dumps(behaviours[first])[:300])

    # behaviours in which the driver could not reach quiescence are not judged (infrastructure)
    unjudged = {t[1] - 1 for t in notq}
    mism = [m for m in mism if (m[1] - 1) not in unjudged]
    if len(unjudged) > max(3, len(behaviours) // 100):
        raise vlib.Infra("driver did not reach quiescence in %d behaviours" % len(unjudged))

    # known findings, identified by the witness the monitor prints
    known_ids = sorted({k[0] for k in known})
    unknown_known = []
    for kid in known_ids:
        if kid in KNOWN_IDS and ctx.is_known(kid):
            n = sum(1 for k in known if k[0] == kid)
            ctx.report_known(kid, "%d restarted running actor(s) lost their tree node to the death watch "
                                  "(first: trace line %s, behaviour %s, actor %s)" % (n, known[0][1], known[0][2], known[0][3]))
        else:
            unknown_known.append(kid)

    # vacuity: which model actions / branches did the REAL executions exercise
    acts = {}
    cur = None
    for r in rows:
        if r["op"] == "New":
            cur = r["cfg"]
        k = None
        if r["op"] == "Consume":
            k = "consume:" + r["d"]
        elif r["op"] == "Panicking":
            k = "panicking:%s:%s" % (r["d"], r["strat"])
        elif r["op"] == "Handle":
            k = "handle:" + r["k"]
        elif r["op"] == "Faults":
            exhausted = cur["max"] > 0 and cur["win"] in ("short", "long") and r["flt"] > cur["max"]
            k = "budget:" + ("exhausted" if exhausted else "within")
        elif r["op"] in ("Restarted", "Tick", "Reinstate"):
            k = r["op"].lower()
        elif r["op"] == "Obs" and any(r["x"].values()):
            k = "window:expired"
        if k:
            acts[k] = acts.get(k, 0) + 1
    need = ["consume:none", "consume:Resume", "consume:Stop", "consume:Restart", "consume:Escalate", "panicking:Stop:one",
            "panicking:Stop:all", "panicking:Restart:one", "panicking:Restart:all", "panicking:Escalate:one", "handle:Sig",
            "budget:exhausted", "budget:within", "restarted", "tick", "reinstate", "window:expired"]
    missing = [k for k in need if not acts.get(k)]
    if missing:
        raise vlib.Infra("vacuous run: the real executions never exercised %s" % missing)

    def nontrivial(b):
        return sum(1 for o in b["ops"] if o["op"] == "Fault") >= 2
    cov = {
        "states": ctx.states()[0], "transitions": ctx.states()[1],
        "traces_validated_against_impl": len(behaviours) - len(unjudged),
        "samples": [{"cfg": b["cfg"], "pcfg": b["pcfg"], "ops": [[o["op"], o.get("a", ""), o.get("e", "")] for o in b["ops"]]}
                    for b in (behaviours[0], behaviours[len(exh) // 2], behaviours[-1])],
        "evaluations": len(behaviours), "distinct_nontrivial": len({key(b) for b in behaviours if nontrivial(b)}),
        "rule": "behaviour = supervisor configuration (strategy, typed / PanicError / any-error directives, late typed rule, retry "
                "budget, window class, backoff) x parent configuration x sequence of environment operations (Fault(actor, error "
                "type), Tick past the short window, Reinstate) at quiescence; exhaustive = every history of length 2 over the core "
                "configuration set and every history of length 4 with a Tick over the restart-window set (TLC BFS, c1/c2 symmetry broken), random = TLC -simulate walks over a seeded sample of the whole "
                "domain; non-trivial = at least two failures",
        "exhaustive_histories_generated": n_exh_all, "exhaustive_histories_replayed": len(exh), "random_walks": len(sim),
        "overlap_witnesses": len(wit),
        "exhaustive": (not quick), "exhaustive_note": "thorough replays every history of length 2 of the core set; quick a seeded sample",
        "events_validated": nlines, "operations_executed": stats["ops"],
        "configurations": len({json.dumps(b["cfg"], sort_keys=True) for b in behaviours}),
        "actions_exercised_on_real_code": acts,
        "monitor_mismatches": len(mism), "known_witnesses": len(known), "not_quiescent_behaviours": len(unjudged), "implicit_ticks": stats.get("implicit_ticks", 0),
        "conformance_drift": drift, "conformance_drifted_behaviours": len(drifted),
    }
    assumptions = [
        "every operation is issued at quiescence of the family (no failure overlaps the handling of another one); quiescence is "
        "detected with the sup.* verifhook counters and the dispatch state / mailboxes of the family and the death watch",
        "the window rule is judged on the real clock: the driver computes `previous fault older than the window` from the real "
        "lastFaultAt timestamps exactly as recordFault does; the backoff / window arithmetic itself belongs to C08",
        "test actors fail with ctx.Err(&ErrA{}), ctx.Err(&ErrB{}) or a panic; PreStart failures during a restart are not injected",
        "bounded: 2 children (3 in the thorough design check), one parent, one grandparent; D operations per behaviour",
    ]
    if mism or unknown_known:
        if mism:
            line = mism[0][0]
            b = beh_of(line)
            what = "monitor: behaviour %d, trace line %d: actor %s field %s expected %s observed %s (%d mismatches)" % (
                b, line, mism[0][2], mism[0][3], mism[0][4], mism[0][5], len(mism))
        else:
            k = [x for x in known if x[0] in unknown_known][0]
            line, b = k[1], beh_of(k[1])
            what = "monitor: behaviour %d, trace line %d: %s on actor %s (not a known finding)" % (b, line, k[0], k[3])
        end = starts[b + 1] if b + 1 < len(starts) else len(rows)
        snippet = ctx.tmp("violation.ndjson")
        vlib.write_ndjson(snippet, rows[starts[b]:end])
        bf = ctx.tmp("behaviour.json")
        with open(bf, "w") as f:
            json.dump(behaviours[b], f)
        rp = ctx.save_replay("seed%d" % ctx.seed, snippet, bf, text=what + "\n" + json.dumps(behaviours[b]) + "\n")
        ctx.evidence("model_checking", cov, assumptions, violations=len(mism) + len(unknown_known))
        raise vlib.Violation(pid, rp, what)
    if drift:
        ctx.log("conformance drift (not a verdict): " + drift)
    ctx.evidence("model_checking", cov, assumptions)
