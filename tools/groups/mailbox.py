"""C04 — every mailbox implementation behaves like its sequential specification.

Design:    specs/Mailbox/Mpsc.tla (reserve/publish MPSC list = UnboundedMailbox; the same two-step shape as the
           segmented mailbox's writeIdx.Add/slot store and the ring's enqueuePos CAS/seq store) and Fair.tla (every
           atomic step of UnboundedFairMailbox incl. the active-senders list), checked exhaustively by TLC.
spec->code: every edge of the models' state graphs is covered by walks that the puppet scheduler executes on the
           REAL mailbox objects (verifhook gates at each atomic step; Mpsc walks on mpsc/seg/nbring/fair-with-shared-
           sender, Fair walks on the fair mailbox with all 18 hook points gated).
code->spec: the call/return histories of those replays and of free-running concurrent runs on ALL nine mailbox kinds
           are judged by TLC with specs/Mailbox/LinQueue.tla (linearizability to the documented queue: FIFO /
           per-sender FIFO / priority / priority-then-arrival, capacity, emptiness reports).
"""
import json, os, re, collections, threading, concurrent.futures
import vlib, tlagraph

PROPERTIES = ["C04"]
SPEC = "Mailbox"

# kind -> (LinQueue Kind, capacity given to the constructor, documented capacity)
KINDS = {
    "mpsc":    ("fifo", 0, 0),
    "seg":     ("fifo", 0, 0),
    "segroll": ("fifo", 0, 0),      # segmented mailbox with the concurrent phase straddling a segment roll-over
    "fair":    ("fair", 0, 0),
    "nbring":  ("fifo", 3, 4),      # capacity is rounded up to a power of two (documented)
    "bounded": ("fifo", 4, 4),
    "uprio":   ("prio", 0, 0),
    "ustable": ("stableprio", 0, 0),
    "bprio":   ("prio", 3, 3),
    "bstable": ("stableprio", 3, 3),
}

# Interpretation, not a finding: a bounded mailbox may reject while fewer than `capacity` items are dequeuable if
# in-flight Enqueue calls have already reserved the remaining capacity (DESIGN.md C04 (d)).
TOLERANCES = frozenset({"InflightFull"})


class Judged:
    def __init__(self):
        self.n = 0
        self.strict = 0
        self.relaxed = collections.Counter()     # relaxation-set -> count
        self.first_span = {}                      # relaxation-set -> (from, to) trace lines of the first such history
        self.rejected = None                      # (from, to) of the first history that is not linearizable at all
        self.rows = None


def judge(ctx, lock, label, linkind, cap, trace, timeout=1500):
    with lock:
        cfg = ctx.tmp("LinQueue_%s.cfg" % label)
    with open(cfg, "w") as f:
        f.write('SPECIFICATION Spec\nCONSTANTS\n  Kind = "%s"\n  Cap = %d\n  Relax = {"TransientEmpty", "InflightFull"}\n'
                'CHECK_DEADLOCK FALSE\n' % (linkind, cap))
    name = os.path.basename(cfg)
    r = ctx.tlc(SPEC, name, module="LinQueue", dfs=True, files={"trace.ndjson": trace, name: cfg}, timeout=timeout,
                heap="6g", name="lin-" + label)
    rows = vlib.read_ndjson(trace)
    bounds = [i + 1 for i, e in enumerate(rows) if e["ev"] == "New"]
    ends = collections.defaultdict(set)
    tups = vlib.tuples(r.out, "END")
    if len(tups) != r.out.count('"END"'):
        raise vlib.Infra("unparsed END markers in LinQueue output (%s)" % label)
    for line, used in tups:
        ends[int(line)].add(frozenset(x.strip().strip('"') for x in used.strip("{}").split(",") if x.strip()))
    j = Judged()
    j.rows = rows
    j.n = len(bounds) - 1
    for k in range(1, len(bounds)):       # history k lies between bounds[k-1] and bounds[k]
        b = bounds[k]
        if b not in ends:
            j.rejected = (bounds[k - 1], b)
            break
        if any(u <= TOLERANCES for u in ends[b]):
            j.strict += 1                  # linearizable under the stated interpretation of the contract
            if frozenset() not in ends[b]:
                j.relaxed["(tolerance)InflightFull"] += 1
        else:
            best = min(ends[b], key=lambda u: len(u - TOLERANCES))
            key = ",".join(sorted(best - TOLERANCES))
            j.relaxed[key] += 1
            j.first_span.setdefault(key, (bounds[k - 1], b))
    return j


def cut(ctx, rows, span, name):
    p = ctx.tmp(name + ".ndjson")
    vlib.write_ndjson(p, rows[span[0] - 1:span[1]])
    return p


def walks_to_behaviours(g, walks, res_actions):
    beh = []
    for w in walks:
        steps = []
        for s in w:
            st = {"a": s["a"], "args": s["args"]}
            if s["a"] in res_actions:
                state = g.state(s["to"])
                if res_actions[s["a"]] is None or res_actions[s["a"]](state):
                    st["res"] = int(state["lastRes"])
            steps.append(st)
        beh.append(steps)
    return beh


def run(ctx, pid):
    quick = ctx.quick
    rng = ctx.rng
    lock = threading.Lock()
    exe = ctx.build("mailbox")
    total = {"hist": 0, "strict": 0, "drift": 0, "pred_mismatch": 0, "walks": 0, "steps": 0}
    samples = []
    known_hits = collections.Counter()
    tolerated = collections.Counter()
    assumptions = ["single consumer as the Mailbox contract requires; call/return order = sequence number assigned under one "
                   "lock before the call and after the return (sound for linearizability, may only lose real-time precedence)",
                   "segment roll-over of the segmented mailbox (256 slots) and ring wrap-around beyond the small capacities "
                   "used are exercised only by the free-running histories, not at atomic-step granularity",
                   "'reject only when full' is read as: capacity reserved by in-flight enqueues counts (InflightFull tolerance)"]

    def finish(violations=0):
        st, tr = ctx.states()
        cov = {"states": st, "transitions": tr, "traces_validated_against_impl": total["hist"], "samples": samples[:6],
               "evaluations": total["hist"], "distinct_nontrivial": total["strict"],
               "rule": "histories = puppet replays of edge-cover walks of the Mpsc.tla / Fair.tla state graphs on the real "
                       "mailboxes + free-running concurrent producer/consumer runs per mailbox kind; distinct_nontrivial = "
                       "histories TLC judged strictly linearizable (each has >= 2 concurrent producers)",
               "edge_cover_walks_replayed": total["walks"], "atomic_steps_replayed": total["steps"],
               "known_finding_histories": dict(known_hits), "inflight_full_tolerated": dict(tolerated),
               "replay_drift": total["drift"], "model_prediction_mismatches": total["pred_mismatch"], "exhaustive": False}
        ctx.evidence("model_checking", cov, assumptions, violations=violations)

    def account(kind, j, source):
        total["hist"] += j.n
        total["strict"] += j.strict
        if j.rejected:
            rp = ctx.save_replay("%s-seed%d" % (kind, ctx.seed), cut(ctx, j.rows, j.rejected, "violation-%s" % kind))
            finish(violations=1)
            raise vlib.Violation(pid, rp, "mailbox %s (%s): the history at trace lines %d..%d is not linearizable to its "
                                 "documented queue (even allowing the listed relaxations): a message was lost, duplicated, "
                                 "reordered, or emptiness/fullness was misreported"
                                 % (kind, source, j.rejected[0], j.rejected[1]))
        for rel, n in j.relaxed.items():
            if rel.startswith("(tolerance)"):
                tolerated[kind] += n
                continue
            for one in rel.split(","):
                fid = "%s:%s" % (one, "seg" if kind == "segroll" else kind)
                k = ctx.is_known(fid)
                if k:
                    known_hits[fid] += n
                    ctx.report_known(fid, k["what"])
                else:
                    finish(violations=n)
                    rp = ctx.save_replay("%s-%s-seed%d" % (kind, one, ctx.seed), cut(ctx, j.rows, j.first_span[rel], "relaxed-%s" % kind))
                    raise vlib.Violation(pid, rp, "mailbox %s (%s): %d histories are linearizable only with relaxation %s, "
                                         "which is not a listed finding for this mailbox" % (kind, source, n, one))

    # ------------------------------------------------------------------ 1. design level (parallel TLC runs)
    pool = concurrent.futures.ThreadPoolExecutor(max_workers=4)
    f_mpsc = pool.submit(ctx.tlc_must_hold, SPEC, "MC_Mpsc.cfg" if quick else "MC_Mpsc_t.cfg", module="MC_Mpsc", timeout=1500)
    f_mpsc_asis = pool.submit(ctx.tlc, SPEC, "MC_Mpsc_asis.cfg", module="MC_Mpsc", timeout=600, expect_fail=True)
    f_fair = pool.submit(ctx.tlc_must_hold, SPEC, "MC_Fair.cfg" if quick else "MC_Fair_t.cfg", module="MC_Fair",
                         timeout=2400, workers=4 if quick else 10)
    f_fair_asis = pool.submit(ctx.tlc, SPEC, "MC_Fair_asis.cfg", module="MC_Fair", timeout=600, expect_fail=True)
    f_dump_m = pool.submit(ctx.tlc, SPEC, "Dump_Mpsc.cfg", module="MC_Mpsc", timeout=900, dump_dot=True)
    f_dump_f = pool.submit(ctx.tlc, SPEC, "Dump_Fair_q.cfg" if quick else "Dump_Fair.cfg", module="MC_Fair", timeout=1800,
                           dump_dot=True)

    f_seg = pool.submit(ctx.tlc_must_hold, SPEC, "MC_Seg_q.cfg" if quick else "MC_Seg_t.cfg", module="MC_Seg", timeout=3400,
                        workers=2 if quick else 10)
    f_seg_asis = None if quick else [
        pool.submit(ctx.tlc, SPEC, "MC_Seg_asis.cfg", module="MC_Seg", timeout=1800, expect_fail=True, workers=6),
        pool.submit(ctx.tlc, SPEC, "MC_Seg_clearnext.cfg", module="MC_Seg", timeout=3000, expect_fail=True, workers=6)]

    # ------------------------------------------------------------------ 1b. Seg.tla counterexample schedules on the real mailbox
    def witness(name):
        t = ctx.tmp("%s.ndjson" % name)
        p = ctx.run([exe, name, "3" if quick else "20", t], timeout=900)
        rs = json.loads(p.stdout.strip().splitlines()[-1])
        return name, rs, judge(ctx, lock, "wit-" + name, "prio" if name == "upriorace" else "fifo", 0, t, timeout=3000)

    wfuts = [pool.submit(witness, n) for n in ("segrace", "segrace2", "upriorace")]

    # ------------------------------------------------------------------ 2. free-running histories, all kinds
    nh = 100 if quick else 1200

    def stress_one(kind):
        linkind, cap, doccap = KINDS[kind]
        with lock:
            t = ctx.tmp("stress-%s.ndjson" % kind)
        ctx.run([exe, "stress", kind, str(cap), "3", "3", str(nh), str(ctx.seed * 1000 + len(kind)), t], timeout=900)
        return kind, judge(ctx, lock, "%s-%s" % (linkind, kind), linkind, doccap, t, timeout=3000)

    stress_futs = [pool.submit(stress_one, k) for k in KINDS]

    # ------------------------------------------------------------------ 2b. capacity clause: fill phase without a consumer
    def fill_one(kind, cap, doccap, variant="fill"):
        with lock:
            t = ctx.tmp("%s-%s.ndjson" % (variant, kind))
        if variant == "fill":      # 6 producers x 4 messages, the consumer starts only after the producers are done
            n = 400 if quick else 5000
            ctx.run([exe, "stress", kind + "_fill", str(cap), "6", "4", str(n), str(ctx.seed * 777 + cap), t], timeout=1800)
        elif variant == "storm":   # 8 producers spin on Enqueue (rejections unrecorded) against a slow consumer: all of them see a freed slot at once
            n = 40 if quick else 800
            ctx.run([exe, "stress", kind + "_storm", str(cap), "8", "12", str(n), str(ctx.seed * 781 + cap), t], timeout=3000)
        else:                      # churn: 8 producers retry rejected messages while a slow consumer frees one slot at a time
            n = 30 if quick else 600
            ctx.run([exe, "stress", kind + "_churn", str(cap), "8", "12", str(n), str(ctx.seed * 779 + cap), t], timeout=3000)
        with lock:
            cfg = ctx.tmp("CapMonitor_%s.cfg" % kind)
        with open(cfg, "w") as f:
            f.write("SPECIFICATION Spec\nCONSTANTS\n  Cap = %d\nCHECK_DEADLOCK FALSE\n" % doccap)
        name = os.path.basename(cfg)
        r = ctx.tlc(SPEC, name, module="CapMonitor", dfs=True, files={"trace.ndjson": t, name: cfg}, timeout=3400, heap="10g",
                    name="cap-%s-%s" % (variant, kind))
        nl = sum(1 for _ in open(t))
        if r.depth != nl + 1:
            raise vlib.Infra("CapMonitor consumed %d of %d lines (%s)" % (r.depth - 1, nl, kind))
        mm = vlib.tuples(r.out, "MISMATCH")
        if len(mm) != r.out.count('"MISMATCH"'):
            raise vlib.Infra("unparsed MISMATCH lines (CapMonitor %s)" % kind)
        return kind, n, mm, t

    fill_futs = [pool.submit(fill_one, k, c, d) for k, c, d in (("bprio", 3, 3), ("bstable", 3, 3), ("nbring", 3, 4))]
    fill_futs += [pool.submit(fill_one, k, c, d, "churn") for k, c, d in (("bprio", 3, 3), ("bstable", 3, 3))]
    fill_futs += [pool.submit(fill_one, k, c, d, "storm") for k, c, d in (("bprio", 3, 3), ("bstable", 3, 3), ("nbring", 3, 4))]

    # ------------------------------------------------------------------ 3. spec -> code: Mpsc edge cover on four kinds
    d = f_dump_m.result()
    g = tlagraph.Graph.load(os.path.join(d.rundir, "graph.dot"))
    walks, left = g.edge_cover(rng)
    if left:
        raise vlib.Infra("edge cover incomplete")
    nall = len(walks)
    replay_futs = []

    def replay_one(kind, rkind, linkind, cap, beh):
        with lock:
            bfile = ctx.tmp("%s-behaviours.ndjson" % rkind)
            trace = ctx.tmp("%s-trace.ndjson" % rkind)
        vlib.write_ndjson(bfile, beh)
        p = ctx.run([exe, "replay", rkind, bfile, trace], timeout=1800)
        rs = json.loads(p.stdout.strip().splitlines()[-1])
        return kind, rkind, rs, judge(ctx, lock, "%s-replay-%s" % (linkind, rkind), linkind, cap, trace, timeout=3000)

    res_m = {"Deq": None, "Empty": None}
    for kind, n_q, n_t in (("mpsc", 1000, nall), ("seg", 300, 3000), ("nbring", 300, 3000), ("fair", 300, 3000)):
        sel = vlib.sample(rng, walks, n_q if quick else n_t)
        beh = walks_to_behaviours(g, sel, res_m if kind == "mpsc" else {})
        if kind == "mpsc":
            samples.append({"mpsc_walk": [[s["a"]] + s["args"] for s in beh[0]]})
        replay_futs.append(pool.submit(replay_one, kind, kind, KINDS[kind][0], 8 if kind == "nbring" else 0, beh))

    # ------------------------------------------------------------------ 4. spec -> code: Fair edge cover, all hooks gated
    df = f_dump_f.result()
    gf = tlagraph.Graph.load(os.path.join(df.rundir, "graph.dot"))
    fwalks, left = gf.edge_cover(rng)
    if left:
        raise vlib.Infra("edge cover incomplete (Fair)")
    nall_f = len(fwalks)
    fsel = vlib.sample(rng, fwalks, 1500 if quick else 12000)
    consumer_idle = lambda st: 'c |-> "idle"' in st["pc"]
    fbeh = walks_to_behaviours(gf, fsel, {"Empty": None, "D0": consumer_idle, "DDeact": consumer_idle, "DRecheck": consumer_idle,
                                          "FRecheck": consumer_idle, "ALink": consumer_idle})
    samples.append({"fair_walk": [[s["a"]] + s["args"] for s in fbeh[0]]})
    replay_futs.append(pool.submit(replay_one, "fair", "fairfull", "fair", 0, fbeh))

    # ------------------------------------------------------------------ collect
    f_mpsc.result()
    f_fair.result()
    f_seg.result()
    if f_seg_asis:
        for f, inv in zip(f_seg_asis, (("NoLoss", "NotWedged"), ("NotWedged", "NoLoss"))):
            if f.result().violated not in inv:
                raise vlib.Infra("Seg.tla with the pre-fix Defects no longer violates NoLoss/NotWedged (spec changed?)")
    for fut in wfuts:
        name, rs, j = fut.result()
        ctx.log("witness %-8s: %d rounds, messages lost in %d | histories %d strict %d relaxed %s"
                % (name, rs["rounds"], rs["lost"], j.n, j.strict, dict(j.relaxed)))
        samples.append({"witness": name, "result": rs})
        account("uprio" if name == "upriorace" else "seg", j, "replay of the hand-translated witness schedule '%s' on the real mailbox" % name)
    asis = f_mpsc_asis.result()
    if ctx.is_known("TransientEmpty:mpsc") and asis.violated != "NeverEmptyWhileCompleted":
        raise vlib.Infra("stale finding: Mpsc.tla with Defects={TransientEmpty} no longer violates NeverEmptyWhileCompleted")
    fasis = f_fair_asis.result()
    if fasis.violated != "NoStrand":
        raise vlib.Infra("Fair.tla with the pre-fix Defects no longer violates NoStrand (spec changed?)")
    for fut in replay_futs:
        kind, rkind, rs, j = fut.result()
        total["drift"] += rs["drift"]
        total["pred_mismatch"] += rs["pred_mismatch"]
        total["walks"] += rs["behaviours"]
        total["steps"] += rs["steps"]
        ctx.log("replay %-8s: %d walks (of %d), %d atomic steps, drift %d, watchdog %d | histories %d strict %d relaxed %s"
                % (rkind, rs["behaviours"], nall_f if rkind == "fairfull" else nall, rs["steps"], rs["drift"], rs["watchdog"],
                   j.n, j.strict, dict(j.relaxed)))
        account(kind, j, "puppet replay of %s edge cover on %s" % ("Fair.tla" if rkind == "fairfull" else "Mpsc.tla", rkind))
    for fut in stress_futs:
        kind, j = fut.result()
        if len(samples) < 6:
            samples.append({"kind": kind, "history_head": j.rows[1:9]})
        ctx.log("stress %-8s: histories %d strict %d relaxed %s" % (kind, j.n, j.strict, dict(j.relaxed)))
        account(kind, j, "free-running stress")
    for fut in fill_futs:
        kind, n, mm, t = fut.result()
        total["hist"] += n
        total["strict"] += n - len({m[0] for m in mm})
        ctx.log("capacity %-8s: %d fill / churn histories judged by CapMonitor, mismatches %d" % (kind, n, len(mm)))
        if mm:
            rows = vlib.read_ndjson(t)
            ln = int(mm[0][0])
            start = max(i for i in range(ln) if rows[i]["ev"] == "New")
            end = next((i for i in range(ln, len(rows)) if rows[i]["ev"] == "New"), len(rows))
            rp = ctx.save_replay("%s-capacity-seed%d" % (kind, ctx.seed), cut(ctx, rows, (start + 1, end), "capacity-%s" % kind))
            finish(violations=len(mm))
            raise vlib.Violation(pid, rp, "mailbox %s: holds %s messages with documented capacity %s (successful Enqueues minus "
                                 "started Dequeues at trace line %s)" % (kind, mm[0][1], mm[0][2], mm[0][0]))
    pool.shutdown()
    finish()
