"""C47 — the circuit breaker follows its state machine (specs/Breaker, /repo/breaker).
C08 — restart backoff and fault counting are arithmetically correct (specs/Backoff, actor/pid.go).

C47  spec -> code: TLC enumerates the bounded state graph of the transcription (Breaker.tla) and prints, for
     every transition, a shortest operation history that takes it (transition cover, Gen_Breaker ESpec), plus
     random walks over a larger parameter set (-simulate); each history is executed on the real
     breaker.CircuitBreaker (fake clock through the public WithClock option; concurrent callers are goroutines
     whose user function is held by the driver).
     code -> spec: the recorded trace is judged by TLC twice: Trace_BreakerAbs (the property monitor: abstract
     state machine + abstract bucketed window vs. every real admission / state / metrics result) and
     Trace_Breaker (step-wise conformance with the transcription incl. the ring projection).
C08  see the section further down."""
import json, os, re, subprocess, shutil, time
from concurrent.futures import ThreadPoolExecutor
import vlib

PROPERTIES = ["C47", "C08"]

# ------------------------------------------------------------------------------------------------ C47
BSPEC = "Breaker"
P1 = {"NB": 2, "BD": 2, "MinReq": 2, "RateNum": 1, "RateDen": 2, "OpenTO": 2, "HalfMax": 1}
P2 = {"NB": 3, "BD": 2, "MinReq": 3, "RateNum": 2, "RateDen": 3, "OpenTO": 3, "HalfMax": 2}


def _cfg_params(spec_dir, cfg):
    """Read the parameter set back from a committed .cfg so that driver and spec cannot disagree."""
    txt = open(os.path.join(vlib.VERIF, "specs", spec_dir, cfg)).read()
    return {k: int(re.search(r"^\s*%s\s*=\s*(\d+)" % k, txt, re.M).group(1)) for k in P1}


def _mismatches(out):
    return re.findall(r'<<"MISMATCH", (\d+), "([^"]+)", (.*?), (.*?)>>', out)


def _cut_behaviour(rows, line):
    """rows: parsed trace; line: 1-based failing line. Returns the rows of the behaviour containing it."""
    i = line - 1
    start = max(j for j in range(i + 1) if rows[j]["op"] == "New")
    end = next((j for j in range(i + 1, len(rows)) if rows[j]["op"] == "New"), len(rows))
    return rows[start:end], i - start


def breaker_replay(ctx, exe, tag, params, behaviours, trace_cfg_suffix):
    """Execute behaviours on the real breaker, then monitor + conformance. Returns a dict of results."""
    bfile = ctx.tmp("behaviours-%s.ndjson" % tag)
    vlib.write_ndjson(bfile, behaviours)
    trace = ctx.tmp("trace-%s.ndjson" % tag)
    cfgj = dict(params)
    cfgj["Seed"] = ctx.seed
    p = ctx.run([exe, "breaker", bfile, trace, json.dumps(cfgj)], timeout=900)
    stats = json.loads(p.stdout.strip().splitlines()[-1])
    nlines = stats["events"]

    def mon():
        return ctx.tlc(BSPEC, "Trace_BreakerAbs%s.cfg" % trace_cfg_suffix, module="Trace_BreakerAbs", dfs=True,
                       files={"trace.ndjson": trace}, timeout=2400, heap="10g", name="mon-" + tag)

    def conf():
        return ctx.tlc(BSPEC, "Trace_Breaker%s.cfg" % trace_cfg_suffix, module="Trace_Breaker", dfs=True,
                       files={"trace.ndjson": trace}, timeout=2400, heap="10g", expect_fail=True, name="conf-" + tag)

    with ThreadPoolExecutor(2) as ex:
        fm, fc = ex.submit(mon), ex.submit(conf)
        m, c = fm.result(), fc.result()
    if m.depth != nlines + 1:
        raise vlib.Infra("monitor did not consume the whole trace %s (%d of %d)\n%s" % (tag, m.depth - 1, nlines, m.out[-1500:]))
    drift = None
    if c.violated:
        drift = "%s: invariant %s violated on the real trace at line %d" % (tag, c.violated, c.depth)
    elif c.error:
        drift = "%s: conformance spec could not evaluate line %d: %s" % (tag, c.depth, c.error[:300])
    elif c.depth != nlines + 1:
        drift = "%s: trace rejected by the transcription at line %d of %d" % (tag, c.depth, nlines)
    return {"trace": trace, "stats": stats, "lines": nlines, "mismatches": _mismatches(m.out), "drift": drift}


def run_c47(ctx, pid):
    quick = ctx.quick
    # 1. design: invariants and action properties of the transcription (exhaustive, bounded)
    mc = ctx.tlc_must_hold(BSPEC, "MC_Breaker.cfg" if quick else "MC_Breaker_t.cfg", module="MC_Breaker",
                           timeout=300 if quick else 3000, workers=4 if quick else 6)
    ctx.log("design: %d distinct states, %d transitions, all rules hold" % (mc.distinct, mc.generated))

    # 2. behaviours out of TLC: transition cover (P1, and P2 in thorough) + random walks (P2)
    gcfg = "Gen_Breaker.cfg"
    g = ctx.tlc(BSPEC, gcfg, module="Gen_Breaker", workers=1, deadlock_check=False, timeout=900, name="cover-p1")
    cover = vlib.parse_sim_behaviours(g.out)
    if len(cover) < 5000:
        raise vlib.Infra("transition cover produced too little (%d)" % len(cover))
    ncover_all = len(cover)
    if quick:
        cover = vlib.sample(ctx.rng, cover, 2000)
    s = ctx.tlc(BSPEC, "Sim_Breaker.cfg", module="Gen_Breaker", simulate="num=%d" % (120 if quick else 3000), depth=41,
                deadlock_check=False, workers=1, timeout=900, name="sim-p2")
    walks = vlib.parse_sim_behaviours(s.out)
    if len(walks) < 500 or any(len(b) != 40 for b in walks):
        raise vlib.Infra("random walk generation produced too little (%d)" % len(walks))
    cover2 = []
    if not quick:
        g2 = ctx.tlc(BSPEC, "Gen_Breaker_t.cfg", module="Gen_Breaker", workers=1, deadlock_check=False, timeout=3000, name="cover-p2")
        cover2 = vlib.parse_sim_behaviours(g2.out)
    ctx.log("behaviours: %d of %d covering histories (P1), %d covering histories (P2), %d random walks (P2)"
            % (len(cover), ncover_all, len(cover2), len(walks)))
    p1, p2 = _cfg_params(BSPEC, gcfg), _cfg_params(BSPEC, "Sim_Breaker.cfg")
    if p1 != _cfg_params(BSPEC, "Trace_BreakerAbs.cfg") or p2 != _cfg_params(BSPEC, "Trace_BreakerAbs_p2.cfg") \
            or p1 != _cfg_params(BSPEC, "Trace_Breaker.cfg") or p2 != _cfg_params(BSPEC, "Trace_Breaker_p2.cfg"):
        raise vlib.Infra("parameter sets of generator and trace configurations differ")

    # 3. + 4. replay on the real breaker and judge
    exe = ctx.build("breakerbackoff")
    r1 = breaker_replay(ctx, exe, "p1", p1, cover, "")
    r2 = breaker_replay(ctx, exe, "p2", p2, cover2 + walks, "_p2")

    behaviours = cover + cover2 + walks
    def nontrivial(b):   # reaches Open at least (two failures are needed at the very least) and lets time pass
        return sum(1 for o in b if o.startswith("E:") and not o.endswith(":ok") and not o.endswith(":cancel")) >= 2 and "T" in b
    distinct_nt = len({json.dumps(b) for b in behaviours if nontrivial(b)})
    concurrent = 0
    for b in behaviours:
        inflight, mx = set(), 0
        for o in b:
            f = o.split(":")
            if f[0] == "B" and f[2] == "admitted":
                inflight.add(f[1]); mx = max(mx, len(inflight))
            elif f[0] == "E":
                inflight.discard(f[1])
        concurrent += mx >= 2
    drift = "; ".join(d for d in (r1["drift"], r2["drift"]) if d) or None
    mism = [("p1",) + m for m in r1["mismatches"]] + [("p2",) + m for m in r2["mismatches"]]
    cov = {
        "states": ctx.states()[0], "transitions": ctx.states()[1],
        "traces_validated_against_impl": len(behaviours),
        "samples": [cover[0], cover[len(cover) // 2], cover[-1], walks[0]],
        "evaluations": len(behaviours), "distinct_nontrivial": distinct_nt,
        "rule": "P1: for every transition of the bounded state graph of Breaker.tla (Gen_Breaker.cfg) a shortest history taking it "
                "(quick: seeded sample of 2000 of them; thorough: all, plus the cover of Gen_Breaker_t.cfg for P2); P2: TLC random walks "
                "of depth 40 over 3 callers and 5 outcomes (TLC emits each walk with every alternative last step); every history is finished by completing the calls in flight and reading the "
                "metrics; non-trivial = at least two failing outcomes and a clock tick",
        "events_validated": r1["lines"] + r2["lines"], "covering_histories_total_p1": ncover_all,
        "covering_histories_run": len(cover) + len(cover2), "random_walks": len(walks),
        "histories_with_concurrent_callers": concurrent,
        "exhaustive": not quick, "conformance_drift": drift,
        "model_prediction_mismatches": r1["stats"]["pred_mismatch"] + r2["stats"]["pred_mismatch"],
        "ops_skipped_by_driver": r1["stats"]["skipped"] + r2["stats"]["skipped"],
        "monitor_mismatches": len(mism), "parameters": {"P1": p1, "P2": p2},
    }
    assumptions = [
        "fake monotone clock injected through the public WithClock option; one tick = 1 s",
        "concurrency is explored at the granularity Begin (ctx check + tryAcquire up to the entry of the user function) / End "
        "(return of the user function + record + release): the driver holds the user function, so these segments interleave between "
        "callers but the instructions inside a segment do not (racing tryAcquire/record of two callers is not explored)",
        "bounded: parameter sets P1/P2, clock and sample bounds of MC_Breaker*.cfg, walk depth 40",
    ]
    if mism:
        tag, line, what, exp, got = mism[0]
        r = r1 if tag == "p1" else r2
        rows = vlib.read_ndjson(r["trace"])
        beh, idx = _cut_behaviour(rows, int(line))
        snippet = ctx.tmp("violation.ndjson")
        vlib.write_ndjson(snippet, beh)
        rp = ctx.save_replay("seed%d-%s" % (ctx.seed, tag), snippet,
                             text="parameters %s = %s\nfailing line (0-based, within the behaviour) %d: %s expected %s got %s\n"
                                  % (tag, json.dumps(p1 if tag == "p1" else p2), idx, what, exp, got))
        ctx.evidence("model_checking", cov, assumptions, violations=len(mism))
        raise vlib.Violation(pid, rp, "monitor: %s on the real breaker is %s, the state machine says %s (%s trace line %s; %d mismatches)"
                             % (what, got, exp, tag, line, len(mism)))
    if drift:
        ctx.log("conformance drift (not a verdict): " + drift)
    ctx.evidence("model_checking", cov, assumptions)


def run(ctx, pid):
    if pid == "C47":
        return run_c47(ctx, pid)
    if pid == "C08":
        return run_c08(ctx, pid)
    raise vlib.Infra("unknown property " + pid)


def run_c08(ctx, pid):
    raise vlib.Infra("C08 not implemented yet")
