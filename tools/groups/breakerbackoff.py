"""C47 — the circuit breaker follows its state machine (specs/Breaker, /repo/breaker).
C08 — restart backoff and fault counting are arithmetically correct (specs/Backoff, actor/pid.go).

C47  spec -> code: TLC enumerates the bounded state graph of the transcription (Breaker.tla) and prints, for
     every transition, a shortest operation history that takes it (transition cover, Gen_Breaker ESpec), plus
     random walks over a larger parameter set (-simulate); each history is executed on the real
     breaker.CircuitBreaker (fake clock through the public WithClock option; concurrent callers are goroutines
     whose user function is held by the driver).
     code -> spec: the recorded trace is judged by TLC twice: Trace_BreakerAbs (the property monitor: abstract
     state machine + abstract bucketed window vs. every real admission / state / metrics result) and
     Trace_Breaker (step-wise conformance with the transcription incl. the ring projection).
C08  see the section further down."""
import json, os, re, subprocess, shutil, time
from concurrent.futures import ThreadPoolExecutor
import vlib

PROPERTIES = ["C47", "C08"]

# ------------------------------------------------------------------------------------------------ C47
BSPEC = "Breaker"
P1 = {"NB": 2, "BD": 2, "MinReq": 2, "RateNum": 1, "RateDen": 2, "OpenTO": 2, "HalfMax": 1}
P2 = {"NB": 3, "BD": 2, "MinReq": 3, "RateNum": 2, "RateDen": 3, "OpenTO": 3, "HalfMax": 2}


def _cfg_params(spec_dir, cfg):
    """Read the parameter set back from a committed .cfg so that driver and spec cannot disagree."""
    txt = open(os.path.join(vlib.VERIF, "specs", spec_dir, cfg)).read()
    return {k: int(re.search(r"^\s*%s\s*=\s*(\d+)" % k, txt, re.M).group(1)) for k in P1}


def _mismatches(out):
    """<<"MISMATCH", line, what, expected, got>> tuples printed by a monitor (TLC may wrap long tuples over several lines)."""
    ts = vlib.tuples(out, "MISMATCH")
    if len(ts) != out.count('"MISMATCH"') or any(len(t) != 4 for t in ts):
        raise vlib.Infra("could not parse every MISMATCH tuple of the monitor output (%d of %d)" % (len(ts), out.count('"MISMATCH"')))
    return [(str(t[0]), str(t[1]), json.dumps(t[2]) if isinstance(t[2], str) else str(t[2]),
             json.dumps(t[3]) if isinstance(t[3], str) else str(t[3])) for t in ts]


def _behaviours(out):
    """Histories printed by the generators; guard against TLC wrapping a tuple (a silently shorter list)."""
    bs = vlib.parse_sim_behaviours(out)
    if len(bs) != out.count('"BEHAVIOUR"'):
        raise vlib.Infra("could not parse every BEHAVIOUR tuple (%d of %d)" % (len(bs), out.count('"BEHAVIOUR"')))
    return bs


def _cut_behaviour(rows, line):
    """rows: parsed trace; line: 1-based failing line. Returns the rows of the behaviour containing it."""
    i = line - 1
    start = max(j for j in range(i + 1) if rows[j]["op"] == "New")
    end = next((j for j in range(i + 1, len(rows)) if rows[j]["op"] == "New"), len(rows))
    return rows[start:end], i - start


def breaker_replay(ctx, exe, tag, params, behaviours, mon_cfg, conf_cfg, split=False):
    """Execute behaviours on the real breaker; returns the trace and the two TLC jobs to run on it."""
    bfile = ctx.tmp("behaviours-%s.ndjson" % tag)
    vlib.write_ndjson(bfile, behaviours)
    trace = ctx.tmp("trace-%s.ndjson" % tag)
    cfgj = dict(params)
    cfgj["Seed"] = ctx.seed
    cfgj["Split"] = split
    p = ctx.run([exe, "breaker", bfile, trace, json.dumps(cfgj)], timeout=1800)
    stats = json.loads(p.stdout.strip().splitlines()[-1])

    def mon():
        return ctx.tlc(BSPEC, mon_cfg, module="Trace_BreakerAbs", dfs=True,
                       files={"trace.ndjson": trace}, timeout=3000, heap="10g", name="mon-" + tag)

    def conf():
        return ctx.tlc(BSPEC, conf_cfg, module="Trace_Breaker", dfs=True,
                       files={"trace.ndjson": trace}, timeout=3000, heap="10g", expect_fail=True, name="conf-" + tag)
    return {"tag": tag, "trace": trace, "stats": stats, "lines": stats["events"], "mon": mon, "conf": conf, "n": len(behaviours)}


def breaker_judge(r, m, c):
    nlines, tag = r["lines"], r["tag"]
    if m.depth != nlines + 1:
        raise vlib.Infra("monitor did not consume the whole trace %s (%d of %d)\n%s" % (tag, m.depth - 1, nlines, m.out[-1500:]))
    drift = None
    if c.violated:
        drift = "%s: invariant %s violated on the real trace at line %d" % (tag, c.violated, c.depth)
    elif c.error:
        drift = "%s: conformance spec could not evaluate line %d: %s" % (tag, c.depth, c.error[:300])
    elif c.depth != nlines + 1:
        drift = "%s: trace rejected by the transcription at line %d of %d" % (tag, c.depth, nlines)
    r["mismatches"], r["drift"] = _mismatches(m.out), drift
    return r


def _split_known(ctx, r):
    """Mismatches of a split (race) replay: a history deviates `as the known finding describes` exactly when a caller resumed from
    the hook with a stale admission test (the driver logs stale = the breaker was neither `open and expired` nor half-open when
    toHalfOpen was about to run) at or before its first mismatching line. Returns (#known histories, witness, other mismatches)."""
    import bisect
    if not r["mismatches"]:
        return 0, None, []
    rows = vlib.read_ndjson(r["trace"])
    starts = [k for k, x in enumerate(rows) if x["op"] == "New"]
    first = {}
    for m in r["mismatches"]:
        line = int(m[0]) - 1
        b0 = starts[bisect.bisect_right(starts, line) - 1]
        if b0 not in first or line < first[b0][0]:
            first[b0] = (line, m)
    known, witness, bad = 0, None, []
    for b0, (line, m) in sorted(first.items()):
        if any(rows[k].get("stale") for k in range(b0, line + 1)):
            known += 1
            if witness is None or line - b0 < witness[1] - witness[0]:
                witness = (b0, line, m, [x["op"] + ":" + x.get("c", "") + ":" + x.get("res", x.get("out", "")) for x in rows[b0 + 1:line + 1]])
        else:
            bad.append((r["tag"],) + m)
    return known, witness, bad


def run_c47(ctx, pid):
    quick = ctx.quick
    pool = ThreadPoolExecutor(6 if quick else 3)
    # 1. design (exhaustive, bounded).  MC_Breaker_race.cfg: the repaired design with the interleaving point inside tryAcquire (it
    #    subsumes MC_Breaker.cfg: a Park immediately followed by Resume is the atomic Begin); MC_Breaker_race_asis.cfg: the code as
    #    it is (Defects = {"StaleHalfOpen"}) must violate a rule, otherwise the Defects branch is stale.
    f_rep = pool.submit(ctx.tlc_must_hold, BSPEC, "MC_Breaker_race.cfg", module="MC_Breaker", timeout=900, workers=3, name="race-repaired")
    f_asis = pool.submit(ctx.tlc, BSPEC, "MC_Breaker_race_asis.cfg", module="MC_Breaker", timeout=900, workers=2, expect_fail=True, name="race-asis")
    # 2. behaviours out of TLC
    f_grace = pool.submit(ctx.tlc, BSPEC, "Gen_Breaker_race.cfg", module="Gen_Breaker", workers=1, deadlock_check=False, timeout=1800, name="cover-race")
    # a single caller with a long clock (idle windows, realignment of the buckets): deep in time, narrow in concurrency
    f_gidle = pool.submit(ctx.tlc, BSPEC, "Gen_Breaker_idle.cfg", module="Gen_Breaker", workers=1, deadlock_check=False, timeout=1800, name="cover-idle")
    # a single caller over P3 = 4 buckets of 1 tick: idle gaps that skip 1, 2, 3 buckets or the whole window, between outcomes
    f_ggap = pool.submit(ctx.tlc, BSPEC, "Gen_Breaker_gap.cfg", module="Gen_Breaker", workers=1, deadlock_check=False, timeout=1800, name="cover-gap")
    f_sim = pool.submit(ctx.tlc, BSPEC, "Sim_Breaker.cfg", module="Gen_Breaker", simulate="num=%d" % (120 if quick else 1500), depth=41,
                        deadlock_check=False, workers=1, timeout=1800, name="sim-p2")
    extra = {}
    if not quick:
        extra["mc1"] = pool.submit(ctx.tlc_must_hold, BSPEC, "MC_Breaker.cfg", module="MC_Breaker", timeout=900, workers=3)
        extra["mc2"] = pool.submit(ctx.tlc_must_hold, BSPEC, "MC_Breaker_t.cfg", module="MC_Breaker", timeout=3000, workers=5)
        extra["ideal"] = pool.submit(ctx.tlc_must_hold, BSPEC, "MC_BreakerIdeal.cfg", module="MC_BreakerIdeal", timeout=1800, workers=3)
        extra["g1"] = pool.submit(ctx.tlc, BSPEC, "Gen_Breaker.cfg", module="Gen_Breaker", workers=1, deadlock_check=False, timeout=1800, name="cover-p1")
        extra["g2"] = pool.submit(ctx.tlc, BSPEC, "Gen_Breaker_t.cfg", module="Gen_Breaker", workers=1, deadlock_check=False, timeout=3000, name="cover-p2")
    mcr, mca = f_rep.result(), f_asis.result()
    if not mca.violated:
        raise vlib.Infra("the model with Defects = {StaleHalfOpen} satisfies every rule: stale Defects branch")
    ctx.log("design: repaired design %d distinct states / %d transitions, all rules hold; the code as it is violates %s"
            % (mcr.distinct, mcr.generated, mca.violated))
    race_all = _behaviours(f_grace.result().out)
    walks = _behaviours(f_sim.result().out)
    with_k = [b for b in race_all if any(o.startswith("K:") for o in b)]
    without_k = [b for b in race_all if not any(o.startswith("K:") for o in b)]
    if len(with_k) < 5000 or len(without_k) < 1000:
        raise vlib.Infra("transition cover produced too little (%d, %d)" % (len(with_k), len(without_k)))
    if len(walks) < 500 or any(len(b) != 40 for b in walks):
        raise vlib.Infra("random walk generation produced too little (%d)" % len(walks))
    idle_all = _behaviours(f_gidle.result().out)
    if len(idle_all) < 10000:
        raise vlib.Infra("idle cover produced too little (%d)" % len(idle_all))
    idle = vlib.sample(ctx.rng, idle_all, 600) if quick else idle_all
    gap_all = _behaviours(f_ggap.result().out)
    if len(gap_all) < 10000:
        raise vlib.Infra("gap cover produced too little (%d)" % len(gap_all))
    gap = vlib.sample(ctx.rng, gap_all, 500) if quick else gap_all

    def interleaved(h):   # another caller begins while one is in the middle of the opening transition (between X: and F:)
        mid = None
        for o in h:
            f = o.split(":")
            if f[0] == "X":
                mid = f[1]
            elif f[0] == "F":
                mid = None
            elif mid and f[0] in ("B", "K") and f[1] != mid:
                return True
        return False
    with_x = [b for b in race_all if any(o.startswith("X:") for o in b)]
    x_inter = [b for b in with_x if interleaved(b)]
    x_other = [b for b in with_x if not interleaved(b)]
    k_only = [b for b in with_k if not any(o.startswith("X:") for o in b)]
    if len(x_inter) < 500:
        raise vlib.Infra("too few histories interleave a caller with an opening transition (%d)" % len(x_inter))
    race = ((vlib.sample(ctx.rng, k_only, 1200) + vlib.sample(ctx.rng, x_inter, 400) + vlib.sample(ctx.rng, x_other, 200)
             + vlib.sample(ctx.rng, without_k, 500)) if quick else race_all) + idle
    cover1 = cover2 = []
    if not quick:
        for k in ("mc1", "mc2", "ideal"):
            extra[k].result()
        cover1 = _behaviours(extra["g1"].result().out)
        cover2_all = _behaviours(extra["g2"].result().out)
        cover2 = vlib.sample(ctx.rng, cover2_all, 30000)      # 361 755 transitions in the P2 graph: a seeded sample of them
    ctx.log("behaviours: %d of %d covering histories of the split model incl. %d of %d single-caller long-clock ones (P1; %d park a caller inside tryAcquire), %d + %d covering "
            "histories of the unsplit model (P1, P2), %d random walks (P2)"
            % (len(race), len(race_all) + len(idle_all), len(idle), len(idle_all), sum(1 for b in race if any(o.startswith("K:") for o in b)),
               len(cover1), len(cover2), len(walks)))
    p1, p2 = _cfg_params(BSPEC, "Gen_Breaker_race.cfg"), _cfg_params(BSPEC, "Sim_Breaker.cfg")
    p3 = _cfg_params(BSPEC, "Gen_Breaker_gap.cfg")
    if p3 != _cfg_params(BSPEC, "Trace_BreakerAbs_p3.cfg") or p3 != _cfg_params(BSPEC, "Trace_Breaker_p3.cfg") or p3["NB"] < 3:
        raise vlib.Infra("parameter set P3 of the gap configurations is inconsistent")
    for cfg, pp in (("Gen_Breaker_idle.cfg", p1), ("Trace_BreakerAbs.cfg", p1), ("Trace_Breaker.cfg", p1), ("Trace_Breaker_race.cfg", p1), ("Gen_Breaker.cfg", p1),
                    ("Trace_BreakerAbs_p2.cfg", p2), ("Trace_Breaker_p2.cfg", p2), ("Gen_Breaker_t.cfg", p2)):
        if _cfg_params(BSPEC, cfg) != pp:
            raise vlib.Infra("parameter set of %s differs from the generator's" % cfg)

    # 3. replay on the real breaker   4. judge (monitor = verdict, conformance = drift)
    exe = ctx.build("breakerbackoff")
    reps = [breaker_replay(ctx, exe, "race", p1, race, "Trace_BreakerAbs.cfg", "Trace_Breaker_race.cfg", split=True),
            breaker_replay(ctx, exe, "p2", p2, cover2 + walks, "Trace_BreakerAbs_p2.cfg", "Trace_Breaker_p2.cfg"),
            breaker_replay(ctx, exe, "p3", p3, gap, "Trace_BreakerAbs_p3.cfg", "Trace_Breaker_p3.cfg", split=True)]
    if cover1:
        reps.append(breaker_replay(ctx, exe, "p1", p1, cover1, "Trace_BreakerAbs.cfg", "Trace_Breaker.cfg"))
    jobs = [(r, pool.submit(r["mon"]), pool.submit(r["conf"])) for r in reps]
    reps = [breaker_judge(r, fm.result(), fc.result()) for r, fm, fc in jobs]
    pool.shutdown()
    by_tag = {r["tag"]: r for r in reps}
    r3 = by_tag["race"]
    race_known, witness, race_bad = _split_known(ctx, r3)
    if race_known:
        b0, line, m, hist = witness
        if ctx.is_known("BreakerStaleHalfOpen"):
            ctx.report_known("BreakerStaleHalfOpen", "%d histories in which a caller parked between the openUntil test and toHalfOpen() "
                             "resumes on a stale test; e.g. %s expected %s got %s after %s" % (race_known, m[1], m[2], m[3], json.dumps(hist)))
        else:
            race_bad.append(("race",) + m)
    ctx.log("race: %d stale resumes on the real code; %d histories deviate as the known finding describes, %d otherwise"
            % (r3["stats"]["stale_resumes"], race_known, len(race_bad)))

    behaviours = race + gap + cover1 + cover2 + walks

    def nontrivial(b):   # reaches Open at least (two failures are needed at the very least) and lets time pass
        return sum(1 for o in b if o.startswith("E:") and not o.endswith(":ok") and not o.endswith(":cancel")) >= 2 and "T" in b
    distinct_nt = len({json.dumps(b) for b in behaviours if nontrivial(b)})
    concurrent = 0
    for b in behaviours:
        inflight, mx = set(), 0
        for o in b:
            f = o.split(":")
            if f[0] == "K" or (f[0] == "B" and f[2] == "admitted"):
                inflight.add(f[1])
                mx = max(mx, len(inflight))
            elif f[0] == "E" or (f[0] == "B" and f[2] == "rejected"):
                inflight.discard(f[1])
        concurrent += mx >= 2
    drift = "; ".join(r["drift"] for r in reps if r["drift"]) or None
    mism = race_bad + [(r["tag"],) + m for r in reps if r["tag"] != "race" for m in r["mismatches"]]
    cov = {
        "states": ctx.states()[0], "transitions": ctx.states()[1],
        "traces_validated_against_impl": len(behaviours),
        "samples": [race[0], race[len(race) // 2], race[-1], walks[0]],
        "evaluations": len(behaviours), "distinct_nontrivial": distinct_nt,
        "rule": "P1: for every transition of the bounded state graph of Breaker.tla with the interleaving point inside tryAcquire and the "
                "opening transition in two steps (Gen_Breaker_race.cfg, the model of the code as it is) a shortest history taking it (quick: "
                "seeded samples: 1200 that park a caller at the hook, 400 in which another caller begins in the middle of an opening transition, "
                "200 other two-step openings, 500 others; + 500 of the cover of Gen_Breaker_gap.cfg (P3: 4 buckets x 1 tick, one caller, "
                "idle gaps of every length) + 600 of the cover of Gen_Breaker_idle.cfg (one caller, clock up to 9: idle windows); "
                "thorough: all, plus the cover of the unsplit model Gen_Breaker.cfg (P1) and a "
                "seeded sample of 30000 of the cover of Gen_Breaker_t.cfg (P2)); P2: TLC random walks of depth 40 over 3 callers and 5 outcomes (TLC emits each walk with every "
                "alternative last step); every history is finished by resuming parked callers, completing the calls in flight and reading "
                "the metrics; non-trivial = at least two failing outcomes and a clock tick",
        "events_validated": sum(r["lines"] for r in reps), "covering_histories_total_split_model": len(race_all), "covering_histories_total_idle_model": len(idle_all),
        "covering_histories_run": len(race) + len(cover1) + len(cover2), "random_walks": len(walks),
        "histories_with_concurrent_callers": concurrent,
        "opening_transitions_taken_in_two_steps": r3["stats"]["mid_transitions"],
        "histories_interleaving_a_caller_with_an_opening_transition": sum(1 for b in race if interleaved(b)),
        "gap_histories_run": len(gap), "gap_histories_total": len(gap_all),
        "race_parks": r3["stats"]["parks"], "race_stale_resumes_on_real_code": r3["stats"]["stale_resumes"],
        "race_histories_deviating_as_known_finding": race_known, "race_model_asis_violates": mca.violated,
        "exhaustive": False, "transition_cover_p1_complete": not quick, "conformance_drift": drift,
        "model_prediction_mismatches": sum(r["stats"]["pred_mismatch"] for r in reps),
        "ops_skipped_by_driver": sum(r["stats"]["skipped"] for r in reps),
        "monitor_mismatches": sum(len(r["mismatches"]) for r in reps), "parameters": {"P1": p1, "P2": p2, "P3": p3},
    }
    assumptions = [
        "fake monotone clock injected through the public WithClock option; one tick = 1 s",
        "concurrency is explored at the granularity Begin (ctx check + tryAcquire up to the entry of the user function) / End "
        "(return of the user function + record + release): the driver holds the user function, so these segments interleave between "
        "callers, plus two interleaving points: inside tryAcquire between the openUntil test and toHalfOpen (verifhook + puppet scheduler) "
        "and inside transitionTo(Open) at its clock read, i.e. under b.mu before openUntil and the state are stored (gate in the injected "
        "clock); the other instructions inside a segment do not interleave (e.g. two racing record() calls, the half-open/closed "
        "transitions, whose clock read happens under the window mutex, are not split)",
        "bounded: parameter sets P1/P2, clock and sample bounds of the MC_Breaker*.cfg files, walk depth 40",
    ]
    if mism:
        tag, line, what, exp, got = mism[0]
        r = by_tag[tag]
        rows = vlib.read_ndjson(r["trace"])
        beh, idx = _cut_behaviour(rows, int(line))
        snippet = ctx.tmp("violation.ndjson")
        vlib.write_ndjson(snippet, beh)
        rp = ctx.save_replay("seed%d-%s" % (ctx.seed, tag), snippet,
                             text="parameters %s = %s\nfailing line (0-based, within the behaviour) %d: %s expected %s got %s\n"
                                  % (tag, json.dumps({"p2": p2, "p3": p3}.get(tag, p1)), idx, what, exp, got))
        ctx.evidence("model_checking", cov, assumptions, violations=len(mism))
        raise vlib.Violation(pid, rp, "monitor: %s on the real breaker is %s, the state machine says %s (%s trace line %s; %d mismatches)"
                             % (what, got, exp, tag, line, len(mism)))
    if drift:
        ctx.log("conformance drift (not a verdict): " + drift)
    ctx.evidence("model_checking", cov, assumptions)


def run(ctx, pid):
    if pid == "C47":
        return run_c47(ctx, pid)
    if pid == "C08":
        return run_c08(ctx, pid)
    raise vlib.Infra("unknown property " + pid)


# ------------------------------------------------------------------------------------------------ C08
"""C08  TLC cannot represent int64 (its integers are 32-bit), so the arithmetic part is checked by Apalache:
     (1) symbolic, whole domain: MC_Backoff.tla, n, i, m, ra range over ALL of int64, the C08 formulas are invariants of the
         transcription with Defects = {} (design obligation); with Defects = {"DoubleWrap"}, {"Cap62"} Apalache produces
         counterexample inputs, which join the vectors;
     (2) binding: the real backoffDelay and the real supervisor option are evaluated on boundary-biased + seeded random
         vectors + the counterexamples; the records become Backoff_Recs.tla and Apalache checks Trace_Backoff.tla:
         Mon* (the formulas on the recorded outputs: verdict) and Conf* (recorded = transcription: drift);
     (3) fault counting: FaultWindow.tla (TLC, exhaustive), every history of length D and random walks executed on the real
         (*PID).recordFault, judged by TLC (Trace_FaultWindowAbs monitor, Trace_FaultWindow conformance)."""
KSPEC = "Backoff"
MIN64, MAX64 = -2**63, 2**63 - 1
SYM_INVS = ["InvNonNeg", "InvCapped", "InvExact", "InvDisabled", "InvMonotone", "InvRange", "InvFloor", "InvNormalize"]
MON_INVS = ["MonNonNeg", "MonCapped", "MonExact", "MonDisabled", "MonMonotone", "MonOption", "MonComposed"]
CONF_INVS = ["ConfDelay", "ConfOption"]
REC_FIELDS = ["n", "i", "m", "ra", "r", "r1", "si", "sm", "sra", "rc", "rc1"]


def apalache(ctx, name, module, cinit, invs, timeout, extra_files=None):
    """Run `apalache-mc check --length=0` on a scratch copy of specs/Backoff. Returns dict(violated=<inv name or None>,
    ce=<text of the counterexample state>, wall)."""
    src = os.path.join(vlib.VERIF, "specs", KSPEC)
    rundir = ctx.tmp("apa-" + name)
    os.makedirs(rundir)
    for fn in os.listdir(src):
        if fn.endswith(".tla"):
            shutil.copy(os.path.join(src, fn), rundir)
    for k, v in (extra_files or {}).items():
        with open(os.path.join(rundir, k), "w") as f:
            f.write(v)
    cmd = ["timeout", str(timeout), "apalache-mc", "check", "--length=0", "--init=Init", "--next=Next", "--cinit=" + cinit,
           "--inv=" + ",".join(invs), "--out-dir=" + os.path.join(rundir, "out"), module + ".tla"]
    t = time.time()
    env = dict(os.environ)
    env.setdefault("JVM_ARGS", "-Xmx6g")
    p = subprocess.run(cmd, cwd=rundir, stdout=subprocess.PIPE, stderr=subprocess.STDOUT, text=True, env=env)
    wall = time.time() - t
    out = p.stdout
    with open(os.path.join(rundir, "apalache.out"), "w") as f:
        f.write(out)
    res = {"name": name, "module": module, "cinit": cinit, "invariants": invs, "wall_s": round(wall, 1), "violated": None, "ce": None}
    if p.returncode == 124:
        raise vlib.Infra("apalache timeout after %ss on %s (%s)" % (timeout, module, name))
    holds = len(re.findall(r"state invariant \d+ holds", out))
    nvc = re.search(r"Checking (\d+) state invariants", out)
    nvc = int(nvc.group(1)) if nvc else -1
    m = re.search(r"state invariant (\d+) violated", out)
    res["held"], res["verification_conditions"] = holds, nvc
    if "The outcome is: NoError" in out and holds == nvc and nvc >= len(invs):
        return res
    if m and "The outcome is: Error" in out:
        # Apalache may split a conjunctive invariant into several conditions; the index names the formula only when it did not
        res["violated"] = invs[int(m.group(1))] if nvc == len(invs) else "one of " + ",".join(invs)
        ces = []
        for root, _, files in os.walk(os.path.join(rundir, "out")):
            if "violation1.tla" in files:
                ces.append(os.path.join(root, "violation1.tla"))
        if not ces:
            raise vlib.Infra("apalache reported a violation without a counterexample file (%s)" % name)
        txt = open(ces[0]).read()
        res["ce"] = txt[txt.index("State0 =="):txt.index("(* The following formula")]
        return res
    raise vlib.Infra("apalache failed on %s (%s), exit %s:\n%s" % (module, name, p.returncode, out[-2500:]))


def _ce_ints(ce):
    return {k: int(v) for k, v in re.findall(r"\b(\w+) (?:=|\|->) (-?\d+)", ce)}


def c08_vectors(rng, nrandom):
    """Boundary-biased vectors (powers of two, near overflow, non-positive, the double-wrap class) + seeded random ones."""
    vs = []

    def add(n, i, m, ra=0):
        if MIN64 <= n <= MAX64 and MIN64 <= i <= MAX64 and MIN64 <= m <= MAX64 and MIN64 <= ra <= MAX64:
            vs.append({"n": n, "i": i, "m": m, "ra": ra})
    ns = [MIN64, -1, 0, 1, 2, 3, 31, 32, 33, 61, 62, 63, 64, 65, 66, 100, MAX64 - 1, MAX64]
    iv = [MIN64, -1, 0, 1, 2, 3, 10**8, 10**9, 2**31, 2**33 + 1, 2**62, 2**62 + 1, MAX64 - 1, MAX64]
    for n in ns:
        for i in iv:
            for m in (MIN64, -1, 0, 1, i - 1, i, i + 1, 2**62, 2**62 + 1, MAX64):
                add(n, i, m, rng.choice([MIN64, -1, 0, 1, 10**9, MAX64]))
    # around the exact product i * 2^(n-1) and around the wrap-around points
    for k in range(0, 63):
        for i in (1, 3, 2**(62 - k) - 1, 2**(62 - k), 2**(62 - k) + 1, 2**(63 - k) - 1 if k < 63 else 1):
            if i <= 0:
                continue
            prod = i << k
            for m in (prod - 1, prod, prod + 1, MAX64):
                add(k + 1, i, m, 0)
    # double wrap: i = 2^a + low, shifted so that 2^a leaves the 64-bit word and low comes back small and positive
    for a in range(2, 63):
        for low in (1, 3, 5):
            for extra in (0, 1, 2):
                shift = 64 - a + extra
                if shift > 70 or low >= 2**a:
                    continue
                i = 2**a + low
                add(shift + 1, i, MAX64, 0)
                add(shift + 1, i, max(i, (low << shift) & MAX64) + 1, 0)
                add(shift, i, MAX64, 0)
    boundary = len(vs)

    def mag():
        bits = rng.randint(0, 63)
        x = rng.getrandbits(bits) if bits else 0
        return x if rng.random() < 0.85 else -x
    for _ in range(nrandom):
        n = rng.choice([rng.randint(1, 70), rng.randint(1, 70), rng.randint(-3, 130), mag()])
        i = mag()
        m = rng.choice([mag(), abs(mag()), MAX64, abs(i) * rng.randint(1, 1000)])
        add(n, i, m, rng.choice([0, -1, mag(), abs(mag())]))
    # de-duplicate, keep order
    seen, out = set(), []
    for v in vs:
        k = (v["n"], v["i"], v["m"], v["ra"])
        if k not in seen:
            seen.add(k)
            out.append(v)
    return out, boundary


def recs_module(rows, per_def=20):
    """Backoff_Recs.tla for one run. The table is cut into definitions of 20 records: Apalache's type checker is
    superlinear in the size of one definition (180 records in one set literal: 80 s; in 9 definitions: 17 s)."""
    ty = ("\\* @type: Set({ n: Int, i: Int, m: Int, ra: Int, r: Int, r1: Int, si: Int, sm: Int, sra: Int, rc: Int, rc1: Int });\n")
    parts = []
    for k in range(0, len(rows), per_def):
        body = ",\n  ".join("[" + ", ".join("%s |-> %d" % (f, r[f]) for f in REC_FIELDS) + "]" for r in rows[k:k + per_def])
        parts.append(ty + "R%d == {\n  %s\n}\n" % (k // per_def, body))
    return ("---------------------------- MODULE Backoff_Recs ----------------------------\n"
            "(* generated: records of the real backoffDelay / WithExponentialBackoff *)\nEXTENDS Integers\n"
            + "\n".join(parts) + ty + "Recs == " + " \\cup ".join("R%d" % k for k in range(len(parts)))
            + "\n=============================================================================\n")


def _input_class(v):
    """Class of a vector by its INPUTS only (used to match known findings and to explain violations)."""
    n, i, m = v["n"], v["i"], v["m"]
    if i > 0 and m >= 0 and 1 <= n <= 62 and (i << (n - 1)) >= 2**64:
        return "DoubleWrap"       # the product leaves the 64-bit word entirely
    if i > 0 and m >= 0 and n == 63 and (i << 62) <= MAX64:
        return "Cap62"            # 2^62 * i is still representable
    return "other"


def fault_window_part(ctx, exe):
    """recordFault: design check, behaviours, replay on the real function, monitor + conformance (all TLC)."""
    quick = ctx.quick
    mc = ctx.tlc_must_hold(KSPEC, "MC_FaultWindow.cfg", module="MC_FaultWindow", timeout=300, workers=2)
    g = ctx.tlc(KSPEC, "Gen_FaultWindow.cfg" if quick else "Gen_FaultWindow_t.cfg", module="Gen_FaultWindow", workers=1,
                deadlock_check=False, timeout=1200, name="fw-gen")
    exh = _behaviours(g.out)
    s = ctx.tlc(KSPEC, "Sim_FaultWindow.cfg", module="Gen_FaultWindow", simulate="num=%d" % (150 if quick else 3000),
                deadlock_check=False, workers=1, timeout=900, name="fw-sim")
    sim = _behaviours(s.out)
    if len(exh) < 5000 or len(sim) < 100:
        raise vlib.Infra("fault-window behaviour generation produced too little (%d, %d)" % (len(exh), len(sim)))
    behaviours = exh + sim
    bfile = ctx.tmp("fw-behaviours.ndjson")
    vlib.write_ndjson(bfile, behaviours)
    trace = ctx.tmp("fw-trace.ndjson")
    p = ctx.run([exe, "faults", bfile, trace, ""], timeout=600)
    nlines = json.loads(p.stdout.strip().splitlines()[-1])["events"]
    mon = ctx.tlc(KSPEC, "Trace_FaultWindowAbs.cfg", module="Trace_FaultWindowAbs", dfs=True, files={"trace.ndjson": trace},
                  timeout=1800, name="fw-mon")
    if mon.depth != nlines + 1:
        raise vlib.Infra("fault-window monitor did not consume the whole trace (%d of %d)" % (mon.depth - 1, nlines))
    conf = ctx.tlc(KSPEC, "Trace_FaultWindow.cfg", module="Trace_FaultWindow", dfs=True, files={"trace.ndjson": trace},
                   timeout=1800, expect_fail=True, name="fw-conf")
    drift = None
    if conf.violated:
        drift = "fault window: invariant %s violated on the real trace at line %d" % (conf.violated, conf.depth)
    elif conf.error:
        drift = "fault window: conformance spec could not evaluate line %d" % conf.depth
    elif conf.depth != nlines + 1:
        drift = "fault window: trace rejected by the transcription at line %d of %d" % (conf.depth, nlines)
    nt = len({json.dumps(b) for b in behaviours
              if any(o == "T" and any(x.startswith("R:") and int(x[2:]) > 0 for x in b[k + 1:]) and any(x.startswith("R:") for x in b[:k])
                     for k, o in enumerate(b))})
    return {"behaviours": behaviours, "exhaustive": len(exh), "random": len(sim), "lines": nlines, "trace": trace,
            "mismatches": _mismatches(mon.out), "drift": drift, "nontrivial": nt, "mc_states": mc.distinct}


def run_c08(ctx, pid):
    quick = ctx.quick
    apa_runs = []
    exe = ctx.build("breakerbackoff")
    pool = ThreadPoolExecutor(6)
    f_fw = pool.submit(fault_window_part, ctx, exe)
    # (1) symbolic, whole int64 domain, repaired arithmetic: design obligation
    f_sym = pool.submit(apalache, ctx, "sym-fixed", "MC_Backoff", "CInit_fixed", SYM_INVS, 900 if quick else 2400)
    # counterexample inputs from the deviating branches of the model -> extra vectors for the real code (thorough; the
    # boundary vectors of the quick tier already contain both wrap-around classes)
    ce_vectors = []
    if not quick:
        f_ce1 = pool.submit(apalache, ctx, "sym-doublewrap", "MC_Backoff", "CInit_dwrap", ["InvFloor"], 900)
        f_ce2 = pool.submit(apalache, ctx, "sym-cap62", "MC_Backoff", "CInit_cap62", ["InvExact"], 900)
        for ce, dname in ((f_ce1.result(), "DoubleWrap"), (f_ce2.result(), "Cap62")):
            apa_runs.append(ce)
            if not ce["violated"]:
                raise vlib.Infra("the model with Defects = {%s} no longer violates its formula: stale Defects branch" % dname)
            x = _ce_ints(ce["ce"])
            ce_vectors.append({"n": x["n"], "i": x["i"], "m": x["m"], "ra": x.get("ra", 0)})
        ctx.log("counterexample inputs of the deviating model branches: %s" % json.dumps(ce_vectors))

    # (2) vectors -> real code -> table judged by Apalache
    allv, nboundary = c08_vectors(ctx.rng, 200 if quick else 1500)
    witness = [v for v in allv if _input_class(v) != "other"]
    if quick:
        rest = [v for v in allv if _input_class(v) == "other"]
        nb = len(rest) - 200 if len(rest) > 400 else len(rest) // 2      # the random ones come last
        vectors = (vlib.sample(ctx.rng, [v for v in witness if _input_class(v) == "DoubleWrap"], 45)
                   + vlib.sample(ctx.rng, [v for v in witness if _input_class(v) == "Cap62"], 15)
                   + vlib.sample(ctx.rng, rest[:nb], 130) + vlib.sample(ctx.rng, rest[nb:], 70))
    else:
        vectors = ce_vectors + allv
    vfile, ofile = ctx.tmp("vectors.ndjson"), ctx.tmp("records.ndjson")
    vlib.write_ndjson(vfile, vectors)
    ctx.run([exe, "backoff", vfile, ofile], timeout=300)
    rows = vlib.read_ndjson(ofile)
    if len(rows) != len(vectors):
        raise vlib.Infra("driver returned %d records for %d vectors" % (len(rows), len(vectors)))
    ctx.log("vectors: %d evaluated on the real backoffDelay / WithExponentialBackoff (%d of the wrap-around classes)"
            % (len(rows), sum(1 for v in vectors if _input_class(v) != "other")))

    violations, drift, known_classes = [], None, set()
    chunk = 300 if quick else 250     # solver time of the Conf* formulas grows faster than linearly with the table
    pending = [rows[k:k + chunk] for k in range(0, len(rows), chunk)]
    rounds = 0
    while pending:
        rounds += 1
        if rounds > 40:
            raise vlib.Infra("too many judging rounds")
        with ThreadPoolExecutor(3) as ex:
            futs = [(c, ex.submit(apalache, ctx, "table-%d" % (rounds * 100 + k), "Trace_Backoff", "CInit_code", ["J" + x for x in MON_INVS + CONF_INVS],
                                  1500 if quick else 3600, {"Backoff_Recs.tla": recs_module(c)})) for k, c in enumerate(pending)]
            results = [(c, f.result()) for c, f in futs]
        pending = []
        for c, r in results:
            apa_runs.append({k: r[k] for k in ("name", "module", "cinit", "wall_s", "violated", "held")} | {"records": len(c)})
            if not r["violated"]:
                continue
            if r["violated"].startswith("one of"):
                raise vlib.Infra("apalache split the judging formulas (%s)" % r["name"])
            name = r["violated"][1:]
            rec = _ce_ints(r["ce"])
            rec = {f: rec[f] for f in REC_FIELDS}
            if name in CONF_INVS:
                # all Mon* formulas were checked before and hold on this chunk: drift only
                drift = drift or ("recorded values differ from the transcription (%s) for %s" % (name, json.dumps(rec)))
                continue
            cls = _input_class(rec)
            fid = {"DoubleWrap": "BackoffDoubleWrap", "Cap62": "BackoffCap62"}.get(cls)
            if fid and ctx.is_known(fid):
                ctx.report_known(fid, "%s fails for n=%d i=%d m=%d: real delay %d" % (name, rec["n"], rec["i"], rec["m"], rec["r"]))
                known_classes.add(cls)
                left = [x for x in c if _input_class(x) != cls]
                if left and len(left) < len(c):
                    pending.append(left)
                continue
            violations.append((name, rec, cls))
    sym, fw = f_sym.result(), f_fw.result()
    pool.shutdown()
    apa_runs.append(sym)
    if sym["violated"]:
        raise vlib.Infra("design-level check failed: MC_Backoff with Defects = {} violates %s\n%s" % (sym["violated"], sym["ce"]))
    ctx.log("symbolic: %d formulas hold over all of int64 for the repaired arithmetic (%.0fs)" % (len(SYM_INVS), sym["wall_s"]))
    fw_mism = fw["mismatches"]

    vec_nt = len({(v["n"], v["i"], v["m"]) for v in vectors if v["i"] > 0 and v["n"] >= 2 and v["m"] > 0})
    states, transitions = ctx.states()
    cov = {
        "states": states, "transitions": transitions,
        "traces_validated_against_impl": len(fw["behaviours"]),
        "samples": [vectors[0], vectors[len(vectors) // 2], rows[-1], fw["behaviours"][len(fw["behaviours"]) // 2]],
        "evaluations": len(vectors) + len(fw["behaviours"]),
        "distinct_nontrivial": vec_nt + fw["nontrivial"],
        "rule": "arithmetic: boundary-biased vectors (powers of two, products around i*2^(n-1) +-1, the wrap-around classes, non-positive and "
                "extreme values), seeded random vectors with uniformly random bit length, and the counterexample inputs Apalache derives from the "
                "deviating model branches; each evaluated on the real backoffDelay (n and n+1) and through the real WithExponentialBackoff; "
                "non-trivial = i > 0, n >= 2, m > 0. fault counting: every history of length %d over {recordFault(w) for w in -1..3, tick} plus "
                "random walks of length 16 on the real recordFault; non-trivial = a fault, then a tick, then a fault with a positive window. "
                "states/transitions are those of the TLC runs (fault counting); the arithmetic is checked symbolically (no state count)"
                % (5 if quick else 7),
        "symbolic": {"tool": "apalache-mc 0.58 --length=0", "domain": "all n, i, m, ra in [-2^63, 2^63-1]",
                     "formulas": SYM_INVS, "holds_for_repaired_arithmetic": True,
                     "tlc_not_applicable": "TLC integers are 32-bit; int64 wrap-around cannot be represented"},
        "apalache_runs": apa_runs,
        "vectors_evaluated_on_impl": len(vectors), "vectors_boundary_pool": nboundary, "counterexample_vectors": ce_vectors,
        "vectors_in_wraparound_classes": sum(1 for v in vectors if _input_class(v) != "other"),
        "fault_histories_exhaustive": fw["exhaustive"], "fault_histories_random": fw["random"], "fault_events_validated": fw["lines"],
        "exhaustive": False, "conformance_drift": "; ".join(d for d in (drift, fw["drift"]) if d) or None,
        "monitor_mismatches": len(violations) + len(fw_mism),
    }
    assumptions = [
        "Apalache 0.58 / Z3 are trusted for the symbolic check; shifts are modelled as literal-power multiplication + two's-complement wrap",
        "the precondition maxDelay >= 0 is assumed for non-negativity / cap / exactness (WithExponentialBackoff guarantees "
        "maxDelay >= initialDelay > 0 whenever backoff is enabled; that normalisation is itself checked)",
        "recordFault reads the wall clock: time passes by ageing the stored timestamp through the verif-tag shim (1 tick = 1 h, faults "
        "fall half a tick off the window boundaries); a boundary hit exactly on the nanosecond is not exercised",
        "the choice of the window and the budget decision in handleRestartDirective are transcribed (EffWindow) but not bound",
    ]
    if violations or fw_mism:
        if violations:
            name, rec, cls = violations[0]
            txt = ("formula %s of C08 fails on the real code\ninput class: %s\nrecord (int64 nanoseconds): %s\n"
                   "reproduce: actor.VerifBackoffDelay(%d, %d, %d) = %d; for n+1: %d\n"
                   % (name, cls, json.dumps(rec), rec["n"], rec["i"], rec["m"], rec["r"], rec["r1"]))
            rfile = ctx.tmp("violation.json")
            with open(rfile, "w") as f:
                json.dump({"formula": name, "class": cls, "record": rec}, f)
            rp = ctx.save_replay("seed%d" % ctx.seed, rfile, text=txt)
            msg = "monitor: %s fails on the real backoffDelay: n=%d i=%d m=%d -> %d (n+1 -> %d) [%s]" % (
                name, rec["n"], rec["i"], rec["m"], rec["r"], rec["r1"], cls)
        else:
            line, what, exp, got = fw_mism[0]
            rws = vlib.read_ndjson(fw["trace"])
            beh, idx = _cut_behaviour(rws, int(line))
            snippet = ctx.tmp("violation.ndjson")
            vlib.write_ndjson(snippet, beh)
            rp = ctx.save_replay("seed%d-faults" % ctx.seed, snippet)
            msg = "monitor: %s of the real recordFault is %s, the window rule says %s (trace line %s; %d mismatches)" % (what, got, exp, line, len(fw_mism))
        ctx.evidence("model_checking", cov, assumptions, violations=len(violations) + len(fw_mism))
        raise vlib.Violation(pid, rp, msg)
    if cov["conformance_drift"]:
        ctx.log("conformance drift (not a verdict): " + cov["conformance_drift"])
    ctx.evidence("model_checking", cov, assumptions)
