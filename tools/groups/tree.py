"""C09, C10, C11, C17 — the actor tree: subtree stop (children first, tree consistent), exactly one Terminated per
watcher, one running actor per name, system shutdown tears every actor down once.

Design:    specs/Tree/Tree.tla — one action per tree operation (each is one critical section of tree.mu), lifecycle
           callbacks, single-flight spawn (leader fn on its own goroutine, followers), freeChildren (one goroutine per
           child + join), freeWatchers (snapshot, per watcher IsRunning/Tell/UnWatch), the death-watch actor, Restart
           of a leaf, ActorSystem.Stop.  Code deviations are `Defects` branches: Defects = {} (repaired design) must
           satisfy every invariant, Defects = AllDefects (code as it is) yields the state graphs that are replayed.
spec->code: walks covering every edge of the as-is state graphs are executed on a REAL actor system by
           harness/cmd/tree: harness goroutines, the single-flight leader goroutine, the per-child goroutines of
           freeChildren and goakt's dispatcher workers (death watch, PoisonPill, PostStart handler) are stepped gate by
           gate.  The same programmes also run free (stress).
code->spec: lifecycle callbacks, operation calls/returns, Terminated receipts and the tree projected under tree.mu after
           every mutation are judged by TLC with specs/Tree/TreeMonitor.tla (observable contract only).
Scenario table below is the single source: `python3 tools/groups/tree.py gen` writes specs/Tree/MC_Tree.tla and cfgs.
"""
import json, os, re, sys, collections, concurrent.futures

if __name__ != "__main__":
    import vlib, tlagraph

PROPERTIES = ["C09", "C10", "C11", "C17"]
SPEC = "Tree"

ALLINV = ("TreeWF PostStopOnce AtMostOneRunning TerminatedAtMostOnce TerminatedDelivered SpawnReturnsLive CounterSettles "
          "ChildrenFirst StopIsComplete ResolvesLiveOnly LiveAreRegistered NoStaleNode ParentsLive SystemStopComplete")
BASEINV = "TreeWF TerminatedAtMostOnce"


def S(names, parent, init, prog, watch=(), after=None, maxinc=1, maxperm=1, asis=(), thorough=False, grains=0):
    return dict(names=list(names), parent=dict(parent), init=list(init), watch=[list(w) for w in watch],
                prog={t: [dict(op=o[0], n=o[1], w=(o[2] if len(o) > 2 else "")) for o in ops] for t, ops in prog.items()},
                after=dict(after or {}), maxinc=maxinc, maxperm=maxperm, asis=set(asis), thorough=thorough, grains=grains)


# asis = invariants the model of the code AS IT IS is expected to violate in that scenario (stale-finding guard)
SCENARIOS = {
    # C11
    "spawn3": S("a", {"a": "u"}, [], {"t1": [("spawn", "a")], "t2": [("spawnfn", "a")], "t3": [("spawn", "a")]}, maxinc=2),
    "respawn": S("a", {"a": "u"}, ["a"], {"t1": [("stop", "a"), ("actorof", "a")], "t2": [("spawn", "a")]}, maxinc=2,
                 asis={"SpawnReturnsLive", "CounterSettles", "ResolvesLiveOnly", "LiveAreRegistered"}),
    "child2": S("ac", {"a": "u", "c": "a"}, ["a"], {"t1": [("spawnchild", "c")], "t2": [("spawnchild", "c")], "t3": [("stop", "a")]},
                maxinc=2, asis={"ChildrenFirst", "StopIsComplete", "LiveAreRegistered", "SpawnReturnsLive", "CounterSettles", "AtMostOneRunning"}),
    # the leader of the single flight is cancelled mid-spawn (PreStart fails with its context error): the healthy waiters
    # retry through the single flight
    "cancelsp": S("a", {"a": "u"}, [], {"t1": [("spawnx", "a")], "t2": [("spawn", "a")], "t3": [("spawnfn", "a")]}, maxinc=2),
    "childco": S("ac", {"a": "u", "c": "a"}, ["a"], {"t1": [("spawnchild", "c")], "t2": [("spawnchild", "c"), ("actorof", "c")]}, maxinc=2),
    "child1": S("ac", {"a": "u", "c": "a"}, ["a"], {"t1": [("spawnchild", "c")], "t3": [("stop", "a")]},
                maxinc=1, asis={"ChildrenFirst", "StopIsComplete", "LiveAreRegistered"}),
    "orphan": S("ac", {"a": "u", "c": "a"}, [], {"t1": [("spawn", "a")], "h1": [("spawnchild", "c")]}, after={"h1": "a"},
                asis={"LiveAreRegistered"}),
    # thorough tier only: more threads / names
    "spawn2n": S("ab", {"a": "u", "b": "u"}, [], {"t1": [("spawn", "a")], "t2": [("spawnfn", "a")], "t3": [("spawn", "b")], "t4": [("spawn", "b")]},
                 maxinc=2, thorough=True),
    "respawn2": S("a", {"a": "u"}, ["a"], {"t1": [("stop", "a")], "t2": [("spawn", "a")], "t3": [("spawnfn", "a"), ("actorof", "a")]}, maxinc=3, thorough=True,
                  asis={"SpawnReturnsLive", "CounterSettles", "ResolvesLiveOnly", "LiveAreRegistered", "AtMostOneRunning"}),
    # C10
    "watch2": S("avw", {"a": "u", "v": "u", "w": "u"}, "avw",
                {"t1": [("stop", "a")], "t2": [("unwatch", "a", "w"), ("watch", "a", "w")], "t3": [("pill", "v")]}, watch=[("w", "a"), ("v", "a")], maxperm=2, thorough=True),
    "watch": S("avw", {"a": "u", "v": "u", "w": "u"}, "avw",
               {"t1": [("stop", "a")], "t2": [("unwatch", "a", "w")], "t3": [("watch", "a", "v")]}, watch=[("w", "a")], maxperm=2),
    "watchpill": S("avw", {"a": "u", "v": "u", "w": "u"}, "avw",
                   {"t1": [("pill", "a")], "t2": [("unwatch", "a", "w")], "t3": [("watch", "a", "v")]}, watch=[("w", "a")]),
    "wrestart": S("aw", {"a": "u", "w": "u"}, "aw", {"t1": [("stop", "a")], "t2": [("restart", "w")]}, watch=[("w", "a")],
                  asis={"LiveAreRegistered"}),
    # C09
    "overlap": S("abc", {"a": "u", "b": "a", "c": "a"}, "abc", {"t1": [("stop", "a"), ("actorof", "b")], "t2": [("stop", "b")]},
                 asis={"ChildrenFirst", "ResolvesLiveOnly"}),
    "restart1": S("ab", {"a": "u", "b": "a"}, "ab", {"t2": [("restart", "b"), ("actorof", "b")]}, asis={"LiveAreRegistered"}),
    "restart": S("ab", {"a": "u", "b": "a"}, "ab", {"t1": [("stop", "a")], "t2": [("restart", "b")]}, thorough=True,
                 asis={"ChildrenFirst", "CounterSettles", "LiveAreRegistered", "StopIsComplete", "PostStopOnce"}),
    "deep": S("abc", {"a": "u", "b": "a", "c": "b"}, "abc", {"t1": [("stop", "a")], "t2": [("stop", "c"), ("actorof", "c")]}, thorough=True,
              asis={"ChildrenFirst", "ResolvesLiveOnly", "StopIsComplete"}),
    # C17
    "sysstop2": S("abc", {"a": "u", "b": "a", "c": "u"}, "abc", {"t1": [("sysstop", "")], "t2": [("tell", "b"), ("stop", "b")], "t3": [("tellg", "g1")]}, grains=1, thorough=True,
                  asis={"ChildrenFirst", "SystemStopComplete"}),
    "sysstop": S("abc", {"a": "u", "b": "a", "c": "u"}, "abc", {"t1": [("sysstop", "")], "t2": [("tell", "b"), ("tellg", "g1"), ("tell", "c")]}, grains=2),
}
BY_PROP = {
    "C11": ["spawn3", "respawn", "childco", "cancelsp", "spawn2n", "respawn2"],
    "C10": ["watch", "watchpill", "wrestart", "watch2"],
    "C09": ["overlap", "restart1", "respawn", "child1", "orphan", "deep"],
    "C17": ["sysstop", "sysstop2"],
}

# ---------------------------------------------------------------- generation of MC_Tree.tla / cfgs from the table

def tla_set(xs):
    return "{" + ", ".join('"%s"' % x for x in xs) + "}"


def tla_fun(dom, f):
    """[x \\in dom |-> ...] as nested IF (cfg files cannot hold functions)"""
    dom = list(dom)
    if not dom:
        return "[x \\in {} |-> \"\"]"
    body = f(dom[-1])
    for x in reversed(dom[:-1]):
        body = 'IF x = "%s" THEN %s ELSE %s' % (x, f(x), body)
    return "[x \\in %s |-> %s]" % (tla_set(dom), body)


def gen_mc():
    out = ["---- MODULE MC_Tree ----", "\\* GENERATED by tools/groups/tree.py gen from its SCENARIOS table - do not edit", "EXTENDS Tree",
           'Op(o, n, w) == [op |-> o, n |-> n, w |-> w]',
           "View == <<node, counter, pst, pre, psn, ninc, lockh, dwq, dwpc, dwm, pc, ip, tl, spc, sp, slist, sbr, bpar, fl, sysst, dlv, terms, owed, viol, wit>>"]
    for name, s in SCENARIOS.items():
        p = "S_" + name
        out.append("\\* ---- " + name)
        out.append("%s_Names == %s" % (p, tla_set(s["names"])))
        out.append("%s_Seq == <<%s>>" % (p, ", ".join('"%s"' % n for n in sorted(s["names"]))))
        out.append("%s_Par == %s" % (p, tla_fun(s["names"], lambda n: '"%s"' % s["parent"][n])))
        out.append("%s_Init == %s" % (p, tla_set(s["init"])))
        out.append("%s_Watch == {%s}" % (p, ", ".join('<<"%s", "%s">>' % (w, a) for w, a in s["watch"])))
        out.append("%s_Prog == %s" % (p, tla_fun(sorted(s["prog"]), lambda t: "<<" + ", ".join(
            'Op("%s", "%s", "%s")' % (o["op"], o["n"], o["w"]) for o in s["prog"][t]) + ">>")))
        out.append("%s_After == %s" % (p, tla_fun(sorted(s["prog"]), lambda t: '"%s"' % s["after"].get(t, ""))))
    out.append("====")
    return "\n".join(out) + "\n"


def gen_cfg(name, defects, inv):
    s = SCENARIOS[name]
    p = "S_" + name
    return ("SPECIFICATION Spec\nCONSTANTS\n  Names <- %s_Names\n  NameSeq <- %s_Seq\n  ParentOf <- %s_Par\n  Init <- %s_Init\n"
            "  InitWatch <- %s_Watch\n  Prog <- %s_Prog\n  After <- %s_After\n  MaxInc = %d\n  MaxPerm = %d\n  Defects %s\nVIEW View\n"
            "INVARIANTS %s\nCHECK_DEADLOCK FALSE\n") % (p, p, p, p, p, p, p, s["maxinc"], s["maxperm"], defects, inv)


def gen_files():
    files = {"MC_Tree.tla": gen_mc()}
    for name in SCENARIOS:
        files["MC_%s.cfg" % name] = gen_cfg(name, "= {}", ALLINV)                 # repaired design: everything holds
        files["MC_%s_asis.cfg" % name] = gen_cfg(name, "<- AllDefects", BASEINV)  # code as it is: graph for the replay
        files["MC_%s_c.cfg" % name] = gen_cfg(name, "<- AllDefects", ALLINV)      # code as it is vs. the properties
        files["Trace_%s.cfg" % name] = (gen_cfg(name, "<- AllDefects", BASEINV).replace("SPECIFICATION Spec", "SPECIFICATION TraceSpec")
                                        .replace("VIEW View\n", ""))                 # conformance of recorded replays
    return files


def scenario_json():
    return {k: {f: v[f] for f in ("names", "parent", "init", "watch", "prog", "after", "grains")} for k, v in SCENARIOS.items()}


# ---------------------------------------------------------------- known findings: message -> findings that explain it
# A monitor failure counts as a known finding only when the WITNESS of that finding is present in the same history
# (detected on the recorded events, see witnesses()).
EXPLAINS = {
    # C11
    "two actors with the same name are alive at once": ["SpawnOverRegisteredName"],
    "Spawn returned a PID that was not running at any time during the call": ["SpawnOverRegisteredName"],
    "NumActors differs from the number of running user actors at quiescence": ["SpawnOverRegisteredName"],
    # C09
    "ActorOf resolved an actor whose Stop had already returned": ["ActorOfResolvesStopped"],
    "PostStop of an actor began while a registered descendant was still alive": ["OverlappingStopSkipsChild", "ChildAttachedToStoppingParent"],
    "Stop returned while a registered descendant was still alive": ["OverlappingStopSkipsChild", "ChildAttachedToStoppingParent"],
    "a running actor is missing from the tree at quiescence": ["StaleTerminatedDeletesLiveNode", "OrphanChildOutsideTree",
                                                               "ChildAttachedToStoppingParent", "SpawnOverRegisteredName"],
    "a running actor's parent is gone at quiescence": ["ChildAttachedToStoppingParent", "OrphanChildOutsideTree"],
    "an actor is still alive after ActorSystem.Stop returned": ["OverlappingStopSkipsChild"],
    "a stopped actor is still registered at quiescence": ["StopInAttachWatchGap"],
    "a stopped actor is still resolvable by name at quiescence": ["StopInAttachWatchGap"],
    "parent / children / watcher relations of the tree are inconsistent at quiescence": [],
}
FINDING_PROP = {"SpawnOverRegisteredName": {"C11", "C09"}, "ActorOfResolvesStopped": {"C09"}, "OverlappingStopSkipsChild": {"C09", "C17"},
                "ChildAttachedToStoppingParent": {"C09"}, "StaleTerminatedDeletesLiveNode": {"C09"}, "OrphanChildOutsideTree": {"C09"}, "StopInAttachWatchGap": {"C09"}}
STOPOPS = ("stop", "pill", "restart", "sysstop")


def split_histories(rows):
    hs, cur = [], None
    for idx, r in enumerate(rows):
        if r["ev"] == "New":
            if cur is not None:
                hs.append(cur)
            cur = {"start": idx, "rows": [], "scn": r["x"], "wit": r.get("wit", []), "parent": r.get("parent", {})}
        elif cur is not None:
            cur["rows"].append((idx, r))
    return [h for h in hs if h["rows"]]


def witnesses(h):
    """Witness events of the known defects in one history, from the recorded events only."""
    par = h["parent"]
    def anc(n):
        out = []
        while n in par and par[n] != "u":
            n = par[n]
            out.append(n)
        return out
    alive, lastd, opn, wit, started, everreg, psbegun = {}, [], {}, set(), False, set(), set()
    def reg(n):
        for nd in lastd:
            if nd["n"] == n:
                return nd
        return None
    for idx, e in h["rows"]:
        ev = e["ev"]
        if ev == "Start":
            started = True
        if ev in ("mut", "Start"):
            newd = e["d"]
            if ev == "mut" and e["c"] == 6:          # deleteNode: a node whose actor is alive disappeared
                gone = [nd for nd in lastd if nd["n"] != "u" and not any(x["n"] == nd["n"] for x in newd)]
                if any(alive.get((nd["n"], nd["i"])) for nd in gone):
                    wit.add("StaleTerminatedDeletesLiveNode")
            if ev == "mut" and e["c"] == 1:          # addNode: a child attached under a parent that is being stopped / is dead
                for nd in newd:
                    if nd["n"] != "u" and not any(x["n"] == nd["n"] for x in lastd) and par.get(nd["n"], "u") != "u":
                        p = par[nd["n"]]
                        pal = [k for k, v in alive.items() if k[0] == p and v]
                        stopping = any(o["op"] in STOPOPS and (o["n"] == p or o["n"] in anc(p) or o["op"] == "sysstop") for o in opn.values())
                        if not pal or stopping:
                            wit.add("ChildAttachedToStoppingParent")
            lastd = newd
            everreg.update((nd["n"], nd["i"]) for nd in newd)
        elif ev == "prestart":
            nd = reg(e["n"])
            if nd is not None and nd["i"] != e["i"]:
                # a new actor was started while its name was still registered by an instance that is going down
                # (PostStop begun, or a stop of it / of an ancestor / of the system in progress) or already down
                old = (nd["n"], nd["i"])
                going = old in psbegun or not alive.get(old) or any(
                    o["op"] in STOPOPS and (o["n"] == e["n"] or o["n"] in anc(e["n"]) or o["op"] == "sysstop") for o in opn.values())
                if going:
                    wit.add("SpawnOverRegisteredName")
            p = par.get(e["n"], "u")
            if started and e["k"] == 1 and p != "u" and reg(p) is None:
                wit.add("OrphanChildOutsideTree")   # a child was started while its parent was not (yet) in the tree
            alive[(e["n"], e["i"])] = True
        elif ev == "psenter":
            psbegun.add((e["n"], e["i"]))
            # an alive registered descendant that somebody else is stopping at this very moment
            for (n, i), v in alive.items():
                if v and e["n"] in anc(n) and reg(n) is not None and reg(n)["i"] == i:
                    if any(o["op"] in STOPOPS and (o["n"] == n or o["n"] in anc(n)) and o["n"] != e["n"] and o["n"] not in anc(e["n"]) for o in opn.values()):
                        wit.add("OverlappingStopSkipsChild")
        elif ev == "psexit":
            alive[(e["n"], e["i"])] = False
            nd = reg(e["n"])
            if nd is not None and nd["i"] == e["i"] and "dw" not in nd["wers"]:
                wit.add("StopInAttachWatchGap")     # stopped before the death watch was registered as its watcher
        elif ev == "call":
            opn[e["t"]] = e
        elif ev == "ret":
            opn.pop(e["t"], None)
            if e["op"] in ("spawn", "spawnfn", "spawnchild", "spawnx") and e["ok"] == 1 and e["i"] and (e["n"], e["i"]) not in everreg:
                p = par.get(e["n"], "u")
                if p != "u" and reg(p) is None:
                    wit.add("OrphanChildOutsideTree")  # returned as spawned, never inserted, and its parent is not in the tree
            if e["op"] == "actorof" and e["ok"] == 1 and e["run"] == 0:
                wit.add("ActorOfResolvesStopped")  # the resolved PID is not running
    return wit


# ---------------------------------------------------------------- the check

def monitor(ctx, trace, label):
    r = ctx.tlc(SPEC, "TreeMonitor.cfg", module="TreeMonitor", dfs=True, files={"trace.ndjson": trace}, timeout=2400,
                heap="6g", name="mon-" + label)
    n = sum(1 for _ in open(trace))
    if r.depth != n + 1:
        raise vlib.Infra("monitor consumed %d of %d trace lines (%s)" % (r.depth - 1, n, label))
    mm = vlib.tuples(r.out, "MISMATCH")
    if len(mm) != r.out.count('"MISMATCH"'):
        raise vlib.Infra("unparsed MISMATCH lines in monitor output (%s)" % label)
    return [(m[0], int(m[1]), m[2]) for m in mm], n


def run(ctx, pid):
    quick = ctx.quick
    rng = ctx.rng
    here = os.path.join(vlib.VERIF, "specs", SPEC)
    for fn, text in gen_files().items():
        p = os.path.join(here, fn)
        if not os.path.exists(p) or open(p).read() != text:
            raise vlib.Infra("specs/Tree/%s is not what tools/groups/tree.py generates (run: python3 tools/groups/tree.py gen)" % fn)
    scns = [s for s in BY_PROP[pid] if not (quick and SCENARIOS[s]["thorough"])]
    exe = ctx.build("tree")
    sfile = ctx.tmp("scenarios.json")
    with open(sfile, "w") as f:
        json.dump(scenario_json(), f)
    pool = concurrent.futures.ThreadPoolExecutor(max_workers=3)

    # ---- design level.  quick: one exhaustive run per scenario of the model of the code as it is (all property invariants
    # where no finding is recorded for the scenario, the always-true ones otherwise) which also dumps the state graph;
    # thorough: additionally the repaired design (Defects = {}) against every invariant, and the as-is model against the
    # property invariants where findings are recorded (must fail with one of the recorded invariants).
    def asis_cfg(s):
        return "MC_%s_asis.cfg" % s if SCENARIOS[s]["asis"] else "MC_%s_c.cfg" % s
    asis = {s: pool.submit(ctx.tlc_must_hold, SPEC, asis_cfg(s), module="MC_Tree", timeout=2400, workers=3, dump_dot=True) for s in scns}
    fixed = {} if quick else {s: pool.submit(ctx.tlc_must_hold, SPEC, "MC_%s.cfg" % s, module="MC_Tree", timeout=2400, workers=3) for s in scns}
    versus = {} if quick else {s: pool.submit(ctx.tlc, SPEC, "MC_%s_c.cfg" % s, module="MC_Tree", timeout=2400, workers=3, expect_fail=True)
                               for s in scns if SCENARIOS[s]["asis"]}

    tot = collections.Counter()
    samples, others, known_hits = [], collections.Counter(), collections.Counter()
    results = []

    # ---- spec -> code: edge-cover walks of the as-is graphs
    def replay(s):
        d = asis[s].result()
        g = tlagraph.Graph.load(os.path.join(d.rundir, "graph.dot"))
        walks, left = g.edge_cover(rng)
        if left:
            raise vlib.Infra("edge cover incomplete (%s)" % s)
        nsel = 60 if quick else (400 if s.startswith("sysstop") else 1000)
        sel = vlib.sample(rng, walks, nsel)
        beh = []
        for w in sel:
            st = g.state(w[-1]["to"])
            beh.append({"scn": s, "steps": [{"a": x["a"], "args": x["args"]} for x in w], "wit": re.findall(r'"(\w+)"', st.get("wit", ""))})
        bfile, trace = ctx.tmp("beh-%s.ndjson" % s), ctx.tmp("trace-%s.ndjson" % s)
        vlib.write_ndjson(bfile, beh)
        p = ctx.run([exe, "replay", sfile, bfile, trace], timeout=2400)
        rs = json.loads(p.stdout.strip().splitlines()[-1])
        rs["walks_total"] = len(walks)
        rs["edges"] = g.nedges
        samples.append({s + "_walk": [[x["a"]] + x["args"] for x in beh[0]["steps"]][:40]})
        return "replay-" + s, trace, rs

    def stress(s):
        trace = ctx.tmp("stress-%s.ndjson" % s)
        n = 30 if quick else 300
        p = ctx.run([exe, "stress", sfile, s, str(n), str(ctx.seed * 1000 + len(s)), trace], timeout=2400)
        rs = json.loads(p.stdout.strip().splitlines()[-1])
        return "stress-" + s, trace, rs

    # conformance of the recorded replays with Tree.tla (drift is reported, it is never a verdict)
    def conform(s, trace):
        r = ctx.tlc(SPEC, "Trace_%s.cfg" % s, module="Trace_Tree", dfs=True, files={"trace.ndjson": trace}, timeout=2400,
                    heap="6g", name="conf-" + s, expect_fail=True)
        n = sum(1 for _ in open(trace))
        if r.violated:
            return "invariant %s violated on the real trace at line %d" % (r.violated, r.depth)
        if r.depth != n + 1:
            return "trace rejected at line %d of %d" % (r.depth, n)
        return None

    rfuts = {s: pool.submit(replay, s) for s in scns}
    cfuts = {s: pool.submit(lambda s=s: conform(s, rfuts[s].result()[1])) for s in (scns[:1] if quick else scns)}
    futs = [rfuts[s] for s in scns] + [pool.submit(stress, s) for s in scns]

    def finish(violations=0):
        st, tr = ctx.states()
        cov = {"states": st, "transitions": tr, "traces_validated_against_impl": tot["hist"], "samples": samples[:4],
               "evaluations": tot["hist"], "distinct_nontrivial": tot["walks"],
               "rule": "executions = puppet replays of edge-cover walks of the Tree.tla state graphs (model of the code as it is) per "
                       "scenario %s on a real actor system + free-running runs of the same programmes; distinct_nontrivial = distinct "
                       "edge-cover walks replayed (each interleaves >= 2 logical threads)" % scns,
               "atomic_steps_replayed": tot["steps"], "replay_drift": tot["drift"], "events_judged": tot["events"],
               "edge_cover_walks_available": tot["walks_total"], "mismatches_for_other_properties": dict(others),
               "known_finding_hits": dict(known_hits), "exhaustive": False,
               "conformance_drift": {s: f.result() for s, f in cfuts.items() if f.done()}}
        ctx.evidence("model_checking", cov,
                     ["bounded scenarios (<= 3 test actors, <= 3 harness threads, tree depth <= 2); test names are distinct, so the "
                      "tree's name index and id index coincide",
                      "Restart is modelled for leaf actors; ActorSystem.Stop is modelled step by step for the user guardian's "
                      "subtree and as one step for the system actors; grains are outside this model",
                      "snapshot iteration order (Go map order) is fixed by the verif-tag hook to ascending/descending name order",
                      "puppet replays are sequential, so recorded event order is the real order; in free-running runs tree "
                      "projections are taken under tree.mu and callbacks log inside the callback"], violations=violations)

    # design-level results
    for s in scns:
        if s in fixed:
            fixed[s].result()
        asis[s].result()
        if s in versus:
            v = versus[s].result()
            exp = SCENARIOS[s]["asis"]
            if exp and v.violated not in exp:
                raise vlib.Infra("stale finding: Tree.tla as-is (%s) violates %r, expected one of %s" % (s, v.violated, sorted(exp)))
            if not exp and v.violated:
                raise vlib.Infra("Tree.tla as-is (%s) violates %s but no finding is recorded for that scenario" % (s, v.violated))

    # ---- code -> spec: ONE monitor run over all recorded histories
    parts, alltrace, off = [], ctx.tmp("all-traces.ndjson"), 0
    with open(alltrace, "w") as out:
        for fut in futs:
            label, trace, rs = fut.result()
            n = 0
            with open(trace) as f:
                for line in f:
                    out.write(line)
                    n += 1
            parts.append((label, trace, rs, off, n))
            off += n
    mm, nl = monitor(ctx, alltrace, "all")
    rows = vlib.read_ndjson(alltrace)
    hs = split_histories(rows)
    tot["events"] = nl
    drifted = []
    for label, trace, rs, off, n in parts:
        tot["hist"] += rs["behaviours"]
        tot["walks"] += rs["behaviours"] if label.startswith("replay") else 0
        tot["walks_total"] += rs.get("walks_total", 0)
        tot["steps"] += rs["steps"]
        tot["drift"] += rs["drift"]
        here_mm = [m for m in mm if off < m[1] <= off + n]
        mine = []
        for prop, ln, what in here_mm:
            if prop != pid:
                others[prop] += 1
                continue
            h = next((x for x in hs if x["start"] < ln - 1 <= x["rows"][-1][0]), None)
            wits = witnesses(h) if h else set()
            fid = next((f for f in EXPLAINS.get(what, []) if f in wits and pid in FINDING_PROP[f] and ctx.is_known(f)), None)
            if fid:
                known_hits[fid] += 1
                ctx.report_known(fid, ctx.is_known(fid)["what"])
            else:
                mine.append((prop, ln, what, sorted(wits)))
        ctx.log("%s: %d executions, %d steps, drift %d %s, %d events, mismatches %s, unexplained %d" %
                (label, rs["behaviours"], rs["steps"], rs["drift"], rs.get("drift_at") or "", n,
                 dict(collections.Counter(m[0] for m in here_mm)), len(mine)))
        if label.startswith("replay") and rs["drift"] * 5 > rs["behaviours"]:
            drifted.append("replay drifted in %d of %d walks (%s): %s" % (rs["drift"], rs["behaviours"], label, rs.get("drift_at")))
        if mine:
            ln = mine[0][1]
            h = next(x for x in hs if x["start"] < ln - 1 <= x["rows"][-1][0])
            snippet = ctx.tmp("violation.ndjson")
            vlib.write_ndjson(snippet, [rows[h["start"]]] + [r for _, r in h["rows"]])
            rp = ctx.save_replay("seed%d" % ctx.seed, snippet)
            finish(violations=len(mine))
            raise vlib.Violation(pid, rp, "%s: %s (line %d of the history file; witnesses seen %s; %d unexplained mismatches for %s)" %
                                 (label, mine[0][2], ln - h["start"], mine[0][3], len(mine), pid))
    if drifted:      # a drifted walk still ran (free) and was judged above; too many of them means the binding is broken
        finish()
        raise vlib.Infra("; ".join(drifted))
    for s, f in cfuts.items():
        d = f.result()
        ctx.log("conformance %s: %s" % (s, d or "every replayed step is a step of Tree.tla with the projected state"))
    pool.shutdown()
    finish()


if __name__ == "__main__":
    if len(sys.argv) > 1 and sys.argv[1] == "gen":
        d = os.path.join(os.path.dirname(os.path.dirname(os.path.dirname(os.path.abspath(__file__)))), "specs", SPEC)
        for fn in os.listdir(d):
            if fn.endswith(".cfg") and (fn.startswith("MC_") or fn.startswith("Trace_")):
                os.remove(os.path.join(d, fn))
        for fn, text in gen_files().items():
            with open(os.path.join(d, fn), "w") as f:
                f.write(text)
        print("generated %d files in %s" % (len(gen_files()), d))
