"""C24 -- connection compression is transparent (scoped to what has structure: the write / flush /
read / close state machine of internal/net/compress*.go; the codecs' bit-level correctness is only
exercised, not decided).

design : specs/CompressConn/Stream.tla (two endpoints, per direction compressor buffer / wire /
         decoder buffer / delivered, byte ids) checked exhaustively by TLC: Prefix, Pipeline, NoStuck,
         ReadsOK, EOFOK (MC_Stream) and the liveness FlushedDelivered under fairness (MC_Live).
spec -> code : Gen_Stream prints environment schedules (every schedule of length D by BFS, random
         walks by -simulate); size classes are mapped to concrete byte counts here; the driver
         harness/cmd/compressconn executes every schedule on the REAL wrappers (none, gzip, zstd,
         brotli; codecs pooled across sessions) over a controllable in-memory conn, plus a seeded
         free-running stress (a writer and a reader goroutine per direction).
code -> spec : StreamMonitor.tla (TLC) evaluates the contract predicates of StreamContract.tla -- the
         ones Stream.tla proves -- on every recorded Write return, Read return and blocked Read.
         Only a MISMATCH printed by the monitor on a recorded real execution is a VIOLATION."""
import json, os
import vlib

PROPERTIES = ["C24"]
SPEC = "CompressConn"

W_CLASS = {0: [0], 1: [1], 2: [2, 17, 300, 4095, 4096, 4097], 3: [32767, 32768, 32769, 70000, 200000]}
R_CLASS = {0: [0], 1: [1], 2: [2, 7, 512], 3: [4096, 32768, 65536, 1 << 20]}
C_CLASS = {1: [1], 2: [3, 64, 1000], 999: [-1]}
KINDS = ["ctr", "rnd", "rep"]


def concretise(rng, walk):
    out = []
    for a in walk:
        b = dict(a)
        if a["op"] == "Write":
            b["x"] = rng.choice(W_CLASS[a["x"]])
            b["kind"] = rng.choice(KINDS)
        elif a["op"] == "Read":
            b["x"] = rng.choice(R_CLASS[a["x"]])
        elif a["op"] == "Deliver":
            b["x"] = rng.choice(C_CLASS[a["x"]])
        out.append(b)
    return out


PROBE = [{"op": "Write", "d": "ab", "x": 17, "kind": "ctr"}, {"op": "Write", "d": "ba", "x": 17, "kind": "ctr"},
         {"op": "Deliver", "d": "ab", "x": -1}, {"op": "Deliver", "d": "ba", "x": -1},
         {"op": "Read", "d": "ab", "x": 512}, {"op": "Read", "d": "ba", "x": 512}]


def reuse_walks():
    """partial read of a stream, Reopen (= close both endpoints as they are, new connection on the same wrapper), probe.
    big: 8 MB of single-byte runs (a few hundred raw bytes: the decoder stops with output pending and raw input left);
    mid: 70 000 incompressible bytes; zero: zero-length read"""
    out = []
    for d in ("ba", "ab"):
        big = [{"op": "Write", "d": d, "x": 200000, "kind": "rep"} for _ in range(40)]
        out.append(big + [{"op": "Deliver", "d": d, "x": -1}, {"op": "Read", "d": d, "x": 100}, {"op": "Reopen"}] + PROBE)
        out.append([{"op": "Write", "d": d, "x": 70000, "kind": "rnd"}, {"op": "Deliver", "d": d, "x": -1},
                    {"op": "Read", "d": d, "x": 7}, {"op": "Reopen"}] + PROBE)
        out.append([{"op": "Write", "d": d, "x": 300, "kind": "ctr"}, {"op": "Deliver", "d": d, "x": -1},
                    {"op": "Read", "d": d, "x": 0}, {"op": "Reopen"}] + PROBE + [{"op": "Reopen"}] + PROBE)
    return out + out


def uniq(behaviours):
    seen, out = set(), []
    for b in behaviours:
        k = json.dumps(b, sort_keys=True)
        if k not in seen:
            seen.add(k)
            out.append(b)
    return out


CHUNK = int(os.environ.get("VERIF_CC_CHUNK", "150000"))  # trace lines per monitor run (sessions are independent: split at "New")


def monitor(ctx, trace, nlines, name):
    """run StreamMonitor on the trace, in chunks cut at session boundaries; line numbers are global (1-based)"""
    with open(trace) as f:
        lines = f.readlines()
    if len(lines) != nlines:
        raise vlib.Infra("trace %s has %d lines, driver reported %d" % (name, len(lines), nlines))
    cuts, start = [], 0
    news = [i for i, l in enumerate(lines) if '"op":"New"' in l]
    for i in news:
        if i - start >= CHUNK:
            cuts.append((start, i))
            start = i
    cuts.append((start, len(lines)))
    mism, notes = [], []
    for k, (a, b) in enumerate(cuts):
        part = trace if len(cuts) == 1 else ctx.tmp("%s-part%d.ndjson" % (name, k))
        if len(cuts) > 1:
            with open(part, "w") as f:
                f.writelines(lines[a:b])
        mon = ctx.tlc(SPEC, "StreamMonitor.cfg", dfs=True, files={"trace.ndjson": part}, timeout=1500, heap="8g",
                      name="%s-%d" % (name, k))
        if mon.depth != (b - a) + 1:
            raise vlib.Infra("monitor did not consume the whole trace %s part %d (%s of %d)" % (name, k, mon.depth, b - a))
        mm = vlib.tuples(mon.out, "MISMATCH")
        if len(mm) != mon.out.count('"MISMATCH"'):
            raise vlib.Infra("unparsed MISMATCH lines in monitor output")
        for m in mm:
            m[0] = int(m[0]) + a
        mism += mm
        notes += vlib.tuples(mon.out, "NOTE")
    return mism, notes


def cut_session(rows, line):
    """the session (New .. next New) containing 1-based trace line `line`"""
    i = line - 1
    start = max(j for j in range(i + 1) if rows[j]["op"] == "New")
    end = next((j for j in range(i + 1, len(rows)) if rows[j]["op"] == "New"), len(rows))
    return rows[start:end], i - start


def run(ctx, pid):
    quick = ctx.quick
    # 1. design level: exhaustive safety + liveness of the state machine
    mc = ctx.tlc_must_hold(SPEC, "MC_Stream.cfg" if quick else "MC_Stream_t.cfg", module="MC_Stream", deadlock_check=False,
                           workers=4, timeout=300 if quick else 1500)
    live = ctx.tlc_must_hold(SPEC, "MC_Live.cfg" if quick else "MC_Live_t.cfg", module="MC_Stream", deadlock_check=False,
                             workers=4, timeout=300 if quick else 1500)
    ctx.log("design: safety %d distinct states, liveness %d distinct states" % (mc.distinct, live.distinct))

    # 2. schedules out of TLC
    g = ctx.tlc(SPEC, "Gen_Stream.cfg" if quick else "Gen_Stream_t.cfg", module="Gen_Stream", deadlock_check=False, timeout=900,
                name="gen")
    exh = uniq(vlib.parse_sim_behaviours(g.out))
    s = ctx.tlc(SPEC, "Sim_Stream.cfg", module="Gen_Stream", simulate="num=%d" % (300 if quick else 3000), depth=80,
                deadlock_check=False, workers=1, timeout=900, name="sim")
    sim = uniq(vlib.parse_sim_behaviours(s.out))
    sim = [b for b in sim if len(b) >= 8]
    nsim = 260 if quick else 1500
    if len(sim) > nsim:
        sim = ctx.rng.sample(sim, nsim)
    nexh = 372 if quick else 7000
    if len(exh) < 300 or len(sim) < 100:
        raise vlib.Infra("schedule generation produced too little (%d exhaustive, %d random)" % (len(exh), len(sim)))
    exh_all = len(exh)
    if len(exh) > nexh:
        exh = ctx.rng.sample(exh, nexh)
    walks = [concretise(ctx.rng, b) for b in exh + sim]
    # session reuse: abandon a connection with undecoded / undelivered data (no drain), then a new connection
    # through the same wrapper (same pooled codecs) must deliver exactly its own bytes
    reuse = reuse_walks()
    step = max(1, len(walks) // len(reuse))
    for i, w in enumerate(reuse):
        walks.insert(min(len(walks), i * step), w)
    wfile = ctx.tmp("walks.ndjson")
    vlib.write_ndjson(wfile, walks)
    ctx.log("schedules: %d exhaustive (of %d) + %d random" % (len(exh), exh_all, len(sim)))

    # 3. the real wrappers: replay + stress
    exe = ctx.build("compressconn")
    trace = ctx.tmp("trace.ndjson")
    p = ctx.run([exe, "replay", wfile, trace], timeout=900, check=False)
    if p.returncode not in (0, 3):
        raise vlib.Infra("driver failed (%d): %s" % (p.returncode, p.stderr[-2000:]))
    rstats = json.loads(p.stdout.strip().splitlines()[-1])
    strace = ctx.tmp("stress.ndjson")
    p2 = ctx.run([exe, "stress", strace, str(6 if quick else 60)], timeout=900, check=False)
    if p2.returncode not in (0, 3):
        raise vlib.Infra("driver (stress) failed (%d): %s" % (p2.returncode, p2.stderr[-2000:]))
    sstats = json.loads(p2.stdout.strip().splitlines()[-1])

    # 4. TLC judges the recorded executions
    mism, notes = monitor(ctx, trace, rstats["events"], "monitor-replay")
    smism, snotes = monitor(ctx, strace, sstats["events"], "monitor-stress")

    rows = vlib.read_ndjson(trace)
    sizes = sorted({r["n"] for r in rows if r["op"] == "WCall"})
    bufs = sorted({r["b"] for r in rows if r["op"] == "RRet"})
    cfgs = {}
    for r in rows:
        if r["op"] == "New":
            cfgs[r["cfg"]] = cfgs.get(r["cfg"], 0) + 1
    nontrivial = len({json.dumps(w, sort_keys=True) for w in walks
                      if any(a["op"] == "Write" and a["x"] > 0 for a in w) and any(a["op"] == "Read" for a in w)
                      and any(a["op"] == "Deliver" for a in w)})
    cov = {
        "states": ctx.states()[0], "transitions": ctx.states()[1],
        "traces_validated_against_impl": rstats["sessions"] + sstats["sessions"],
        "samples": [walks[0], walks[len(exh) // 2], walks[-1]],
        "evaluations": rstats["sessions"] + sstats["sessions"], "distinct_nontrivial": nontrivial,
        "rule": "every environment schedule of length D over {Write(size class), Deliver(chunk class), Read(buffer class), Close, Break} "
                "(TLC BFS of Gen_Stream) plus TLC random walks of 14 environment actions, size classes mapped to concrete byte counts with "
                "the seeded rng, each executed on none/gzip/zstd/brotli and followed by drain + close + read-to-EOF; plus session-reuse walks "
                "(partial or zero-length read, both endpoints closed without drain, new connection through the same wrapper, probe); non-trivial = has a "
                "non-empty Write, a Deliver and a Read; plus free-running stress sessions",
        "exhaustive": len(exh) == exh_all,
        "events_validated": rstats["events"] + sstats["events"], "exhaustive_schedules": len(exh), "exhaustive_schedules_available": exh_all,
        "random_walks": len(sim), "session_reuse_walks": len(reuse), "sessions_per_setting": cfgs, "write_sizes_seen": sizes, "read_buffers_seen": bufs,
        "stress_sessions": sstats["sessions"], "stress_bytes": sstats["bytes"],
        "monitor_mismatches": len(mism) + len(smism), "unclean_end_notes": len(notes) + len(snotes),
        "watchdog": [x for x in (rstats.get("watchdog"), sstats.get("watchdog")) if x],
    }
    assumptions = [
        "scope: the write/flush/read/close state machine of the wrapper; the codecs' own bit-level correctness (gzip, klauspost zstd, "
        "andybalholm brotli) is exercised only on the generated byte patterns (position-identifying text, PRNG bytes, single-byte runs) "
        "and sizes, not decided",
        "the byte comparison of every Read result with the ground-truth log of the bytes handed to Write is done by the driver "
        "(field eq); the TLA+ monitor decides on that flag plus counts, ordering, causality (raw-byte marks), EOF and blocked reads",
        "the underlying conn is the harness's in-memory conn: unbounded send buffer (Write never blocks), byte-credit delivery; TCP "
        "back-pressure, deadlines on the wrapper and Close concurrent with a blocked Read/Write on the same endpoint are not covered",
        "replay is sequential per action (a Write call is atomic w.r.t. the other actions); mid-Write interleavings only in the stress part",
        "design-level model checking is exhaustive only for the stated small constants (MaxBytes, size sets)",
    ]
    bad = [("replay", trace, rows, m) for m in mism]
    if smism:
        srows = vlib.read_ndjson(strace)
        bad += [("stress", strace, srows, m) for m in smism]
    if bad:
        kind, tfile, trows, m = bad[0]
        sess, idx = cut_session(trows, int(m[0]))
        snippet = ctx.tmp("violation-%s.ndjson" % kind)
        vlib.write_ndjson(snippet, sess)
        rp = ctx.save_replay("seed%d" % ctx.seed, snippet)
        ctx.evidence("model_checking", cov, assumptions, violations=len(bad))
        raise vlib.Violation(pid, rp, "monitor (%s, setting %s, trace line %s = event %d of the saved session): %s; dir %s expected %s got %s "
                             "(%d mismatches in all)" % (kind, sess[0].get("cfg"), m[0], idx, m[1], m[2], m[3], m[4], len(bad)))
    if cov["watchdog"]:
        ctx.evidence("model_checking", cov, assumptions)
        raise vlib.Infra("driver watchdog: %s" % cov["watchdog"])
    ctx.evidence("model_checking", cov, assumptions)
