"""C15, C16, C18 — Ask replies, reentrant requests, dead letters (group askreentr).

C16  specs/Reentrancy/Request.tla: request admission (in-flight limit, blocking counter), the three completion sources
     that reach the requester through its mailbox (reply, timeout goroutine, Cancel from inside / outside the actor), Then
     before / after completion, the reentrancy stash and its release, Shutdown of the requester. Sampled histories of
     length D (TLC BFS) and TLC random walks for MaxInFlight 1 / 2 / unlimited are executed on a REAL requester actor
     (req-replay: command handlers and one responder per request held by the harness, the real timeout goroutines parked
     at the req.timeout.fire hook and released by the puppet scheduler). Mon_Request.tla = verdict, Trace_Request.tla =
     conformance (handler order, continuation order / outcome, real counters, StashSize, mailbox length).
C18  specs/DeadLetter/Drops.tla: the four drop causes (full non-blocking bounded mailbox, Unhandled(), inbound remote
     tell for a missing / stopped actor, failed outbound batch) and the dead-letter actor's counters. Every operation history
     of length D (TLC BFS, sampled) and TLC random walks are executed on a REAL actor system with remoting enabled on loopback
     (dl-replay; remote sources enter through deliverRemoteTellMessage / enqueueCoalescedFailure shims); concurrent senders
     of every kind run freely against small mailboxes (dl-stress). Dead letters are observed by an event-stream subscriber.
     Mon_Drops.tla = verdict (per-id accounting, carried sender/receiver, counts), Trace_Drops.tla = conformance.
C15  specs/Ask/AskPool.tla: PID.Ask / Ask / handleRemoteAsk, ReceiveContext.build / Response, the ReceiveContext and
     reply-channel pools and the mailbox's sentinel recycling at verifhook granularity.
     spec->code: edge-cover walks of the bounded state graph, TLC random walks of a larger configuration and the TLC
     counterexamples of every single-defect variant of the model (regression witnesses) are executed on a REAL actor
     system by the puppet scheduler (harness/cmd/askreentr ask-replay); seeded random schedules over the real gates
     (ask-explore) and free-running runs with real timers (ask-stress) need no model.
     code->spec: Mon_Ask.tla judges every recorded Ask (own reply or error; in-time reply not lost) = verdict;
     Trace_AskPool.tla checks the recorded pool / context / channel projection step by step = conformance (drift).
"""
import json, os, re, collections, concurrent.futures
import vlib, tlagraph

PROPERTIES = ["C15", "C16", "C18"]

RANK = {"a1": 1, "a2": 2, "a3": 3, "t1": 1, "t2": 2}
ASK_DEFECTS = ["CloseAfterReply", "CloseOnTimeout", "PoolOnTimeout", "NoCasGuard"]


def run(ctx, pid):
    if pid == "C15":
        return run_c15(ctx)
    if pid == "C18":
        return run_c18(ctx)
    if pid == "C16":
        return run_c16(ctx)
    raise vlib.Infra("property %s not implemented yet in group askreentr" % pid)


# ------------------------------------------------------------------------------------------------ helpers
def monitor(ctx, spec, module, trace, label, prop):
    r = ctx.tlc(spec, module + ".cfg", module=module, dfs=True, files={"trace.ndjson": trace}, timeout=3000, heap="6g",
                name="mon-" + label)
    n = sum(1 for _ in open(trace))
    if r.depth != n + 1:
        raise vlib.Infra("monitor consumed %d of %d trace lines (%s)" % (r.depth - 1, n, label))
    mm = vlib.tuples(r.out, "MISMATCH")
    if len(mm) != r.out.count('"MISMATCH"'):
        raise vlib.Infra("unparsed MISMATCH lines in monitor output (%s)" % label)
    return [(m[0], int(m[1]), m[2]) for m in mm if m[0] == prop], n


def conformance(ctx, spec, cfg, module, trace, label):
    r = ctx.tlc(spec, cfg, module=module, dfs=True, files={"trace.ndjson": trace}, timeout=3000, heap="6g", expect_fail=True,
                name="conf-" + label)
    n = sum(1 for _ in open(trace))
    if r.violated:
        return "%s: invariant %s violated on the real trace at line %d" % (label, r.violated, r.depth)
    if r.depth != n + 1:
        return "%s: trace rejected at line %d of %d" % (label, r.depth, n)
    return None


def cex_walk(res):
    """(action, thread) sequence of a TLC counterexample."""
    steps = []
    for m in re.finditer(r'^State \d+: <(\w+)(?:\("(\w+)"\))? line', res.out, re.M):
        steps.append({"a": m.group(1), "t": m.group(2) or ""})
    return steps


def cut_history(rows, ln, key="ev"):
    start = max(i for i in range(ln) if rows[i][key] == "New")
    end = next((i for i in range(ln, len(rows)) if rows[i][key] == "New"), len(rows))
    return rows[start:end]


# ------------------------------------------------------------------------------------------------ C15
def run_c15(ctx):
    pid, SPEC, quick, rng = "C15", "Ask", ctx.quick, ctx.rng
    exe = ctx.build("askreentr")
    pool = concurrent.futures.ThreadPoolExecutor(max_workers=3)
    env = {"VERIF_SLOW": "3"}

    # ---- design level: the repaired design satisfies C15 in the bounded model; every named deviation breaks it
    f_design = pool.submit(ctx.tlc_must_hold, SPEC, "MC_AskPool_q.cfg", module="MC_AskPool", timeout=1500, workers=4, dump_dot=True,
                           deadlock_check=False)
    f_thor = None if quick else pool.submit(ctx.tlc_must_hold, SPEC, "MC_AskPool_t.cfg", module="MC_AskPool", timeout=3000, workers=6,
                                            deadlock_check=False)
    f_wit = {d: pool.submit(ctx.tlc, SPEC, "Wit_AskPool_%s.cfg" % d, module="MC_AskPool", timeout=1500, workers=2, expect_fail=True,
                            deadlock_check=False) for d in ASK_DEFECTS}
    f_sim = pool.submit(ctx.tlc, SPEC, "Sim_AskPool.cfg", module="Gen_AskPool", simulate="num=%d" % (150 if quick else 3000), depth=300,
                        deadlock_check=False, timeout=1500, workers=1)

    tot = collections.Counter()
    samples, drifts, known_hits = [], [], collections.Counter()
    traces = []        # (label, trace path, stats, mismatches, lines)

    def replay(label, behaviours, conf_cfg=None):
        bfile, trace = ctx.tmp("beh-%s.ndjson" % label), ctx.tmp("trace-%s.ndjson" % label)
        vlib.write_ndjson(bfile, behaviours)
        p = ctx.run([exe, "ask-replay", bfile, trace], timeout=3000, env=env)
        rs = json.loads(p.stdout.strip().splitlines()[-1])
        mm, nl = monitor(ctx, SPEC, "Mon_Ask", trace, label, pid)
        if conf_cfg:
            d = conformance(ctx, SPEC, conf_cfg, "Trace_AskPool", trace, label)
            if d:
                drifts.append(d)
        return label, trace, rs, mm, nl

    def explore(naskers, nasks, runs):
        label = "explore-%dx%d" % (naskers, nasks)
        trace = ctx.tmp("trace-%s.ndjson" % label)
        p = ctx.run([exe, "ask-explore", str(runs), str(naskers), str(nasks), str(ctx.seed * 10 + naskers), trace], timeout=3000, env=env)
        rs = json.loads(p.stdout.strip().splitlines()[-1])
        mm, nl = monitor(ctx, SPEC, "Mon_Ask", trace, label, pid)
        return label, trace, rs, mm, nl

    def stress(histories):
        label = "stress"
        trace = ctx.tmp("trace-%s.ndjson" % label)
        p = ctx.run([exe, "ask-stress", str(histories), str(ctx.seed), trace], timeout=3000, env=env)
        rs = json.loads(p.stdout.strip().splitlines()[-1])
        mm, nl = monitor(ctx, SPEC, "Mon_Ask", trace, label, pid)
        return label, trace, rs, mm, nl

    def stash(runs):
        label = "stash-scenarios"
        trace = ctx.tmp("trace-stash.ndjson")
        p = ctx.run([exe, "ask-stash", str(runs), trace], timeout=3000, env=env)
        rs = json.loads(p.stdout.strip().splitlines()[-1])
        mm, nl = monitor(ctx, SPEC, "Mon_Ask", trace, label, pid)
        # scenario B (one handler invocation stashes an Ask twice, both copies are answered) is the known finding
        # DoubleStashCrossTalk; it is recognised by the scenario (history label "B") and the mismatch text
        rows = vlib.read_ndjson(trace)
        rest = []
        for m in mm:
            hist = cut_history(rows, m[1])
            k = ctx.is_known("DoubleStashCrossTalk")
            if k and hist[0].get("t") == "B" and m[2] == "an Ask returned the reply to another message":
                known_hits["DoubleStashCrossTalk"] += 1
                ctx.report_known("DoubleStashCrossTalk", k["what"])
            else:
                rest.append(m)
        if ctx.is_known("DoubleStashCrossTalk") and not known_hits["DoubleStashCrossTalk"]:
            ctx.log("note: known finding DoubleStashCrossTalk did not show in scenario B (stale entry?)")
        return label, trace, rs, rest, nl

    def late(runs):
        # fixed witness schedule outside AskPool.tla's granularity (its Enq is atomic): the caller is held inside doReceive
        # right after its message is linked, the target answers and recycles the context, then the caller goes on
        label = "late-read witness (caller held after its enqueue; Ask, PID.Ask, SendSync in turn)"
        trace = ctx.tmp("trace-late.ndjson")
        p = ctx.run([exe, "ask-late", str(runs), trace], timeout=3000, env=env)
        rs = json.loads(p.stdout.strip().splitlines()[-1])
        mm, nl = monitor(ctx, SPEC, "Mon_Ask", trace, "late", pid)
        if rs.get("drift", 0) and not mm:
            raise vlib.Infra("the late-read witness schedule could not be executed: %s" % rs.get("drift_at"))
        return label, trace, rs, mm, nl

    futs = [pool.submit(explore, 3, 1, 150 if quick else 2500), pool.submit(explore, 2, 2, 100 if quick else 1500),
            pool.submit(stress, 30 if quick else 400), pool.submit(stash, 3 if quick else 30), pool.submit(late, 6 if quick else 60)]

    # ---- spec -> code
    d = f_design.result()
    g = tlagraph.Graph.load(os.path.join(d.rundir, "graph.dot"))
    walks, left = g.edge_cover(rng)
    if left:
        raise vlib.Infra("edge cover incomplete")
    sel = vlib.sample(rng, walks, 250 if quick else 4000)
    beh = [{"steps": [{"a": s["a"], "t": (s["args"] or [""])[0]} for s in w], "nasks": {"a1": 1, "a2": 1}, "rank": RANK, "variant": i % 3}
           for i, w in enumerate(sel)]
    samples.append({"edge_cover_walk": [[s["a"], s["t"]] for s in beh[0]["steps"]]})
    futs.append(pool.submit(replay, "cover(%d of %d edge-cover walks)" % (len(sel), len(walks)), beh, "Trace_AskPool_q.cfg"))

    sim = vlib.parse_sim_behaviours(f_sim.result().out)
    if len(sim) < (100 if quick else 2000):
        raise vlib.Infra("too few random walks from TLC (%d)" % len(sim))
    beh = [{"steps": b, "nasks": {"a1": 2, "a2": 1, "a3": 1}, "rank": RANK, "variant": i % 3} for i, b in enumerate(sim)]
    futs.append(pool.submit(replay, "sim(%d random walks)" % len(sim), beh, "Trace_AskPool_sim.cfg"))

    wit = []
    for dname, f in f_wit.items():
        r = f.result()
        if r.violated not in ("OwnReply", "InTime"):
            raise vlib.Infra("AskPool.tla with Defects={%s} no longer violates C15 (spec changed?): %s" % (dname, r.violated))
        w = cex_walk(r)
        if len(w) < 8:
            raise vlib.Infra("could not parse the counterexample for defect %s" % dname)
        for v in range(3):
            wit.append({"steps": w, "nasks": {"a1": 1, "a2": 1}, "rank": RANK, "variant": v, "defect": dname})
        samples.append({"witness_" + dname: [[s["a"], s["t"]] for s in w]})
    futs.append(pool.submit(replay, "witness(%d counterexamples of single-defect models)" % len(wit), wit))
    if f_thor:
        f_thor.result()

    def finish(violations=0):
        st, tr = ctx.states()
        cov = {"states": st, "transitions": tr, "traces_validated_against_impl": tot["hist"], "samples": samples[:4],
               "evaluations": tot["hist"], "distinct_nontrivial": tot["walks"],
               "rule": "executions = puppet replays on a real actor system of (a) edge-cover walks of the AskPool.tla state graph, (b) TLC "
                       "random walks of the 3-caller configuration, (c) counterexamples of the single-defect models, plus seeded random "
                       "(PCT-style) schedules over the real gates and free-running runs with real timers over all Ask entry points; "
                       "distinct_nontrivial = replayed walks (each interleaves >= 2 callers with the responder)",
               "atomic_steps_replayed": tot["steps"], "replay_drift": tot["drift"], "events_judged": tot["events"],
               "conformance_drift": drifts, "known_finding_hits": dict(known_hits), "exhaustive": False}
        ctx.evidence("model_checking", cov,
                     ["default (unbounded) mailbox; one target actor; callers are harness goroutines using Ask / PID.Ask / PID.SendSync "
                      "(replay, explore) and additionally ReceiveContext.Ask / BatchAsk (free-running)",
                      "the caller's deadline is the cancellation of its context (same statement sequence as the timer branch); a deadline "
                      "firing while a reply is already waiting in the caller's channel (Go's select picks either) is outside the property",
                      "pools are emptied before each replay so that pooled objects recur at once (a state the real pools reach under load)"],
                     violations=violations)

    for fut in futs:
        label, trace, rs, mm, nl = fut.result()
        tot["hist"] += rs["behaviours"]
        tot["walks"] += rs["behaviours"] if not label.startswith(("explore", "stress", "stash", "late")) else 0
        tot["steps"] += rs.get("steps", 0)
        tot["drift"] += rs.get("drift", 0)
        tot["events"] += nl
        ctx.log("%s: %d executions, %d steps, drift %d, %d events, %d mismatches" % (label, rs["behaviours"], rs.get("steps", 0), rs.get("drift", 0), nl, len(mm)))
        if mm:
            rows = vlib.read_ndjson(trace)
            snippet = ctx.tmp("violation.ndjson")
            vlib.write_ndjson(snippet, cut_history(rows, mm[0][1]))
            rp = ctx.save_replay("seed%d" % ctx.seed, snippet)
            finish(violations=len(mm))
            raise vlib.Violation(pid, rp, "%s: %s (trace line %d of %s; %d mismatches)" % (label, mm[0][2], mm[0][1], os.path.basename(trace), len(mm)))
    pool.shutdown()
    for d_ in drifts:
        ctx.log("conformance drift (not a verdict): " + d_)
    finish()


# ------------------------------------------------------------------------------------------------ C18
def run_c18(ctx):
    pid, SPEC, quick, rng = "C18", "DeadLetter", ctx.quick, ctx.rng
    exe = ctx.build("askreentr")
    env = {"VERIF_SLOW": "3"}
    port = 20000 + (os.getpid() * 7 + ctx.seed * 131) % 20000
    pool = concurrent.futures.ThreadPoolExecutor(max_workers=3)
    f_mc = pool.submit(ctx.tlc_must_hold, SPEC, "MC_Drops.cfg" if quick else "MC_Drops_t.cfg", module="MC_Drops", timeout=2400, workers=4,
                       deadlock_check=False)
    f_exh = pool.submit(ctx.tlc, SPEC, "Gen_Drops.cfg" if quick else "Gen_Drops_t.cfg", module="Gen_Drops", deadlock_check=False, timeout=2400,
                        workers=2)
    f_sim = pool.submit(ctx.tlc, SPEC, "Sim_Drops.cfg", module="Gen_Drops", simulate="num=%d" % (150 if quick else 2000), depth=20,
                        deadlock_check=False, timeout=2400, workers=1)
    # every named deviation of the model must break the design-level invariants (vacuity of the invariants)
    f_def = {d: pool.submit(ctx.tlc, SPEC, "MC_Drops_%s.cfg" % d, module="MC_Drops", timeout=1200, workers=2, expect_fail=True, deadlock_check=False)
             for d in ("SwallowFull", "DoubleUnhandled", "CountTwice", "BatchFirstSender")}

    def stress():
        trace = ctx.tmp("trace-dlstress.ndjson")
        p = ctx.run([exe, "dl-stress", str(40 if quick else 600), str(ctx.seed), trace, str(port + 1)], timeout=3000, env=env)
        rs = json.loads(p.stdout.strip().splitlines()[-1])
        mm, nl = monitor(ctx, SPEC, "Mon_Drops", trace, "stress", pid)
        return "stress (3-6 concurrent senders of all kinds incl. Request envelopes and two-sender batches, capacity 2-8)", trace, rs, mm, nl, None

    futs = [pool.submit(stress)]
    exh = vlib.parse_sim_behaviours(f_exh.result().out)
    sim = vlib.parse_sim_behaviours(f_sim.result().out)
    if len(exh) < 5000 or len(sim) < (200 if quick else 3000):
        raise vlib.Infra("behaviour generation produced too little (%d exhaustive, %d random)" % (len(exh), len(sim)))
    nontrivial = lambda b: any(o["op"] == "Finish" for o in b) and sum(1 for o in b if o["op"] in ("Tell", "RemoteTell")) >= 2
    sel = vlib.sample(rng, exh, 1000 if quick else 20193)
    behaviours = sel + sim

    def replay():
        bfile, trace = ctx.tmp("beh-dl.ndjson"), ctx.tmp("trace-dl.ndjson")
        vlib.write_ndjson(bfile, behaviours)
        p = ctx.run([exe, "dl-replay", bfile, trace, str(port)], timeout=3000, env=env)
        rs = json.loads(p.stdout.strip().splitlines()[-1])
        mm, nl = monitor(ctx, SPEC, "Mon_Drops", trace, "replay", pid)
        drift = conformance(ctx, SPEC, "Trace_Drops.cfg", "Trace_Drops", trace, "replay")
        return "replay (%d of %d histories of length %d + %d random walks)" % (len(sel), len(exh), len(exh[0]), len(sim)), trace, rs, mm, nl, drift

    futs.append(pool.submit(replay))
    f_mc.result()
    for d, f in f_def.items():
        if not f.result().violated:
            raise vlib.Infra("Drops.tla with Defects={%s} violates nothing: the design-level invariants are vacuous" % d)

    tot = collections.Counter()
    drifts = []

    def finish(violations=0):
        st, tr = ctx.states()
        cov = {"states": st, "transitions": tr, "traces_validated_against_impl": tot["hist"],
               "samples": [[[o["op"], o["snd"], o["rcv"], o["unh"]] for o in b] for b in (behaviours[0], behaviours[len(sel) // 2], behaviours[-1])],
               "evaluations": tot["hist"], "distinct_nontrivial": len({json.dumps(b) for b in behaviours if nontrivial(b)}),
               "rule": "executions = sampled operation histories of length D over {Tell / Ask / ctx.Request envelope (from an actor, without sender), handled|Unhandled, RemoteTell(T|missing), failed batches of 1-3 members from two senders, "
                       "Finish, Stop, Query} (TLC BFS) + TLC random walks of depth 14 on a real actor system (capacity-2 non-blocking mailbox, "
                       "handler held by the harness), each closed by releasing everything and a count query; plus free-running concurrent "
                       "senders; non-trivial = a handler completion and >= 2 deliveries to the target",
               "events_judged": tot["events"], "exhaustive_histories_generated": len(exh), "random_walks": len(sim),
               "conformance_drift": drifts, "exhaustive": False}
        ctx.evidence("model_checking", cov,
                     ["remote sources are driven through verif-tag shims that call deliverRemoteTellMessage / enqueueCoalescedFailure with "
                      "real wire messages (no network peer); messages are wrapperspb.Int64Value carrying the id",
                      "messages still queued when an actor stops, the fan-out queue overflowing (> 256 failed batches waiting) and the "
                      "dead letters of Ask time-outs are outside the four drop causes of the property",
                      "dead letters are observed by one event-stream subscriber; accounting is done at quiescence"], violations=violations)

    for fut in futs:
        label, trace, rs, mm, nl, drift = fut.result()
        tot["hist"] += rs["behaviours"]
        tot["events"] += nl
        if drift:
            drifts.append(drift)
        ctx.log("%s: %d executions, %d steps, %d events, %d mismatches" % (label, rs["behaviours"], rs["steps"], nl, len(mm)))
        if mm:
            rows = vlib.read_ndjson(trace)
            snippet = ctx.tmp("violation.ndjson")
            vlib.write_ndjson(snippet, cut_history(rows, mm[0][1]))
            rp = ctx.save_replay("seed%d" % ctx.seed, snippet)
            finish(violations=len(mm))
            raise vlib.Violation(pid, rp, "%s: %s (trace line %d of %s; %d mismatches)" % (label, mm[0][2], mm[0][1], os.path.basename(trace), len(mm)))
    pool.shutdown()
    for d_ in drifts:
        ctx.log("conformance drift (not a verdict): " + d_)
    finish()


# ------------------------------------------------------------------------------------------------ C16
def reenable_witnesses(maxf):
    """Fixed walks of Request.tla (too long for the BFS depth, rare in random walks): requests in flight across a
    DisableReentrancy -> EnableReentrancy cycle must keep their state and complete exactly once (reply / timeout / cancel)."""
    def send(i, op, mode="", tmo=False, th="", rq=0):
        return {"a": "Send", "id": i, "op": op, "mode": mode, "tmo": tmo, "th": th, "rq": rq, "err": ""}
    fin = {"a": "Finish", "id": 0, "op": "", "mode": "", "tmo": False, "th": "", "rq": 0, "err": ""}
    def act(a, rq):
        return {"a": a, "id": 0, "op": "", "mode": "", "tmo": False, "th": "", "rq": rq, "err": ""}
    out = []
    for mode, tmo, end in (("allow", False, "Reply"), ("allow", True, "TimeoutFire"), ("default", False, "Cancel"), ("allow", False, "Cancel")):
        out.append([send(1, "req", mode, tmo, "now"), fin, send(2, "disable"), send(3, "plain"), fin, fin, send(4, "req", "default", False, "now"), fin,
                    send(5, "enable"), fin, act(end, 1), send(6, "plain"), fin])
    if maxf != 1:
        # with a StashNonReentrant request in flight as well: the enable command itself is held in the stash until that
        # request completes; the AllowAll request stays in flight across the whole cycle
        for end in ("Reply", "Cancel"):
            out.append([send(1, "req", "allow", False, "now"), fin, send(2, "disable"), fin, send(3, "req", "stash", False, "now"), fin,
                        send(4, "enable"), send(5, "plain"), act("Reply", 2), fin, fin, act(end, 1), send(6, "plain"), fin])
    return out


def run_c16(ctx):
    pid, SPEC, quick, rng = "C16", "Reentrancy", ctx.quick, ctx.rng
    exe = ctx.build("askreentr")
    env = {"VERIF_SLOW": "3"}
    pool = concurrent.futures.ThreadPoolExecutor(max_workers=3)
    f_mc = [pool.submit(ctx.tlc_must_hold, SPEC, cfg, module="MC_Request", timeout=2400, workers=4, deadlock_check=False)
            for cfg in (("MC_Request.cfg", "MC_Request_u.cfg") if quick else ("MC_Request.cfg", "MC_Request_u.cfg", "MC_Request_t.cfg"))]
    f_def = {d: pool.submit(ctx.tlc, SPEC, "MC_Request_%s.cfg" % d, module="MC_Request", timeout=1200, workers=2, expect_fail=True, deadlock_check=False)
             for d in ("NoUnblock", "NoUnstash", "CallbackTwice", "LimitOffByOne", "FreshOnEnable")}
    f_exh = pool.submit(ctx.tlc, SPEC, "Gen_Request.cfg" if quick else "Gen_Request_t.cfg", module="Gen_Request", deadlock_check=False, timeout=2400, workers=2)
    sims = {mf: pool.submit(ctx.tlc, SPEC, cfg, module="Gen_Request", simulate="num=%d" % (60 if quick else 1500), depth=24, deadlock_check=False,
                            timeout=2400, workers=1, name="sim-%d" % mf)
            for mf, cfg in ((1, "Sim_Request_1.cfg"), (2, "Sim_Request.cfg"), (0, "Sim_Request_u.cfg"))}

    tot = collections.Counter()
    drifts, samples, allb = [], [], []

    def replay(label, behaviours, maxf):
        bfile, trace = ctx.tmp("beh-rq%d.ndjson" % maxf), ctx.tmp("trace-rq%d.ndjson" % maxf)
        vlib.write_ndjson(bfile, behaviours)
        p = ctx.run([exe, "req-replay", bfile, trace, str(maxf)], timeout=3000, env=env)
        rs = json.loads(p.stdout.strip().splitlines()[-1])
        mm, nl = monitor(ctx, SPEC, "Mon_Request", trace, "rq%d" % maxf, pid)
        d = conformance(ctx, SPEC, "Trace_Request_%d.cfg" % maxf, "Trace_Request", trace, "rq%d" % maxf)
        return label, trace, rs, mm, nl, d

    def stress(maxf):
        trace = ctx.tmp("trace-rqstress%d.ndjson" % maxf)
        p = ctx.run([exe, "req-stress", str(60 if quick else 800), str(ctx.seed * 7 + maxf), trace, str(maxf)], timeout=3000, env=env)
        rs = json.loads(p.stdout.strip().splitlines()[-1])
        mm, nl = monitor(ctx, SPEC, "Mon_Request", trace, "rqstress%d" % maxf, pid)
        return "stress MaxInFlight=%d (bursts of requests, real timeouts, outside Cancel)" % maxf, trace, rs, mm, nl, None

    exh = vlib.parse_sim_behaviours(f_exh.result().out)
    if len(exh) < 5000:
        raise vlib.Infra("behaviour generation produced too little (%d exhaustive)" % len(exh))
    futs = [pool.submit(stress, 2), pool.submit(stress, 0)]
    for mf, f in sims.items():
        sim = vlib.parse_sim_behaviours(f.result().out)
        if len(sim) < (50 if quick else 1000):
            raise vlib.Infra("too few random walks for MaxInFlight=%d (%d)" % (mf, len(sim)))
        beh = sim + (vlib.sample(rng, exh, 1200 if quick else len(exh)) if mf == 1 else []) + reenable_witnesses(mf)
        allb += beh
        samples.append([[o["a"], o["op"], o["mode"], o["rq"]] for o in beh[0]])
        futs.append(pool.submit(replay, "replay MaxInFlight=%d (%d random walks%s)" % (mf, len(sim), " + %d histories of length %d" % (len(beh) - len(sim), len(exh[0])) if mf == 1 else ""),
                                beh, mf))
    for f in f_mc:
        f.result()
    for d, f in f_def.items():
        if not f.result().violated:
            raise vlib.Infra("Request.tla with Defects={%s} violates nothing: the design-level invariants are vacuous" % d)

    def nontrivial(b):
        return sum(1 for o in b if o["a"] in ("Reply", "TimeoutFire", "Cancel")) >= 1 and any(o["a"] == "Finish" and o["op"] == "req" for o in b)

    def finish(violations=0):
        st, tr = ctx.states()
        cov = {"states": st, "transitions": tr, "traces_validated_against_impl": tot["hist"], "samples": samples[:3],
               "evaluations": tot["hist"], "distinct_nontrivial": len({json.dumps(b) for b in allb if nontrivial(b)}),
               "rule": "executions = sampled histories of length D over {Send(plain | req(AllowAll|StashNonReentrant, timeout?, Then now|later) | "
                       "then | cancel), Finish, Reply, TimeoutFire, Cancel, Stop} (TLC BFS) + TLC random walks of depth 16 for MaxInFlight 1, 2 "
                       "and unlimited, each executed on a real requester actor and closed by releasing every pending timeout, handler and "
                       "responder; non-trivial = starts a request and delivers at least one completion signal",
               "atomic_steps_replayed": tot["steps"], "replay_drift": tot["drift"], "events_judged": tot["events"],
               "conformance_drift": drifts, "exhaustive": False}
        ctx.evidence("model_checking", cov,
                     ["actor requesters and actor responders (Request); RequestName shares the code path after name resolution; RequestGrain "
                      "and grain requesters (grain_pid.go has its own bookkeeping) are not driven",
                      "every completion signal is an enqueue into the requester's mailbox, taken as atomic (mailbox internals: C04); the "
                      "timeout is the real goroutine of startTimeout, parked between the fired 1 us timer and enqueueAsyncError",
                      "Shutdown only while the requester is idle (an external Shutdown racing a running handler is C06's known finding); "
                      "continuations of requests cancelled by the shutdown never run (cancelInFlightRequests discards them)"],
                     violations=violations)

    for fut in futs:
        label, trace, rs, mm, nl, drift = fut.result()
        tot["hist"] += rs["behaviours"]
        tot["steps"] += rs["steps"]
        tot["drift"] += rs["drift"]
        tot["events"] += nl
        if drift:
            drifts.append(drift)
        ctx.log("%s: %d executions, %d steps, drift %d, %d events, %d mismatches" % (label, rs["behaviours"], rs["steps"], rs["drift"], nl, len(mm)))
        if mm:
            rows = vlib.read_ndjson(trace)
            snippet = ctx.tmp("violation.ndjson")
            vlib.write_ndjson(snippet, cut_history(rows, mm[0][1]))
            rp = ctx.save_replay("seed%d" % ctx.seed, snippet)
            finish(violations=len(mm))
            raise vlib.Violation(pid, rp, "%s: %s (trace line %d of %s; %d mismatches)" % (label, mm[0][2], mm[0][1], os.path.basename(trace), len(mm)))
    pool.shutdown()
    for d_ in drifts:
        ctx.log("conformance drift (not a verdict): " + d_)
    finish()
