"""C01, C02, C03 — the per-actor scheduling machine: single-threaded handler, exactly-once / no lost wake-up, per-sender FIFO.

Design:    specs/ActorTurn/ActorTurn.tla — doReceive / runTurn / finishOrReclaim / dispatchState / default mailbox /
           external Restart at verifhook granularity; TLC exhaustive (safety) + FairSpec liveness (no lost wake-up).
spec->code: walks covering every edge of the bounded state graphs are executed on a REAL actor system: producers and
           the restarter are harness goroutines, goakt's own dispatcher workers are adopted as turn tokens when they
           reach ds.take.cas, each stepped one gate at a time (harness/cmd/actorturn).
code->spec: handler enter/exit, turn begin/release, Tell results and lifecycle callbacks of those replays and of free-running
           many-sender runs (all FIFO mailbox kinds, BatchTell, concurrent Restart) are judged by TLC with TurnMonitor.tla.
"""
import json, os, re, collections, threading, concurrent.futures
import vlib, tlagraph

PROPERTIES = ["C01", "C02", "C03", "C06"]
SPEC = "ActorTurn"

WHAT = {
    "C01": "no two handler invocations / turn owners at once",
    "C02": "accepted messages handled exactly once; actor drains (no lost wake-up)",
    "C03": "messages of one sender handled in send order",
    "C06": "lifecycle hooks ordered, never overlapping message handling",
}

# C06 known findings: how a monitor failure is recognised as exactly that finding (mismatch text + an EXTERNAL stop
# path - Shutdown/Restart called from a goroutine that is not the actor's own turn - earlier in the same history)
C06_KNOWN = {
    "Receive started after PostStop had started": "ReceiveAfterPostStop",
    "PostStop runs on one goroutine while Receive runs on another": "PostStopDuringReceive",
    "PreStart runs on one goroutine while Receive runs on another": "ReceiveDuringPreStart",
}


def monitor(ctx, trace, label):
    r = ctx.tlc(SPEC, "TurnMonitor.cfg", module="TurnMonitor", dfs=True, files={"trace.ndjson": trace}, timeout=3000,
                heap="6g", name="mon-" + label)
    n = sum(1 for _ in open(trace))
    if r.depth != n + 1:
        raise vlib.Infra("monitor consumed %d of %d trace lines (%s)" % (r.depth - 1, n, label))
    mm = vlib.tuples(r.out, "MISMATCH")
    if len(mm) != r.out.count('"MISMATCH"'):
        raise vlib.Infra("unparsed MISMATCH lines in monitor output (%s)" % label)
    return [(m[0], int(m[1]), m[2]) for m in mm], n


def behaviours(g, walks, nmsgs, ops):
    out = []
    for w in walks:
        d = {"steps": [{"a": s["a"], "args": s["args"]} for s in w], "nmsgs": nmsgs, "restarts": 0, "stops": 0, "pills": 0}
        d.update(ops)
        out.append(d)
    return out


def run(ctx, pid):
    quick = ctx.quick
    rng = ctx.rng
    exe = ctx.build("actorturn")
    pool = concurrent.futures.ThreadPoolExecutor(max_workers=4)
    tot = {"walks": 0, "steps": 0, "drift": 0, "hist": 0, "events": 0, "notq": 0}
    samples = []
    others = collections.Counter()
    conformance = {"histories": 0, "accepted": 0, "not_comparable": 0, "first_rejection": None}
    conf_lock = threading.Lock()
    known_hits = collections.Counter()

    # ---- design level (the exhaustive runs also dump their state graphs for the edge cover)
    def mc(cfg, **kw):
        return pool.submit(ctx.tlc_must_hold, SPEC, cfg, module="MC_ActorTurn", timeout=3000, workers=kw.pop("workers", 4), **kw)

    futs = {"asis": pool.submit(ctx.tlc, SPEC, "MC_ActorTurn_restart_asis.cfg", module="MC_ActorTurn", timeout=900, expect_fail=True)}
    dumps = {}
    if pid == "C06":
        futs["stop"] = mc("MC_ActorTurn_stop.cfg", dump_dot=True)
        futs["pill"] = mc("MC_ActorTurn_pill.cfg", dump_dot=True)      # PoisonPill path: all C06 invariants hold in the model
        futs["stoppill"] = mc("MC_ActorTurn_stoppill.cfg", dump_dot=True)
        futs["restart"] = mc("MC_ActorTurn_restart_q.cfg", dump_dot=True)
        futs["stop_c06"] = pool.submit(ctx.tlc, SPEC, "MC_ActorTurn_stop_c06.cfg", module="MC_ActorTurn", timeout=900, expect_fail=True)
        dumps["stop"] = (futs["stop"], {"p1": 2}, {"stops": 1}, 1228 if quick else 100000)
        dumps["pill"] = (futs["pill"], {"p1": 2}, {"pills": 1}, 500 if quick else 15000)
        dumps["stoppill"] = (futs["stoppill"], {"p1": 2}, {"stops": 1, "pills": 1}, 500 if quick else 15000)
        dumps["restart"] = (futs["restart"], {"p1": 2}, {"restarts": 1}, 400 if quick else 6000)
        modes = (2, 3, 1)
        kinds = ("mpsc", "seg")
    else:
        futs["base"] = mc("MC_ActorTurn.cfg", dump_dot=True)
        futs["restart"] = mc("MC_ActorTurn_restart_q.cfg", dump_dot=True)
        if pid == "C02" or not quick:
            futs["live"] = mc("MC_ActorTurn_live.cfg")
        if not quick:
            futs["base_t"] = mc("MC_ActorTurn_t.cfg", workers=8)
            futs["restart_t"] = mc("MC_ActorTurn_restart.cfg", workers=8)
        dumps["base"] = (futs["base"], {"p1": 2, "p2": 1}, {}, 1200 if quick else 12000)
        dumps["restart"] = (futs["restart"], {"p1": 2}, {"restarts": 1}, 500 if quick else 6000)
        # regression witnesses: walks of the model of the code BEFORE the restart fix (they drift harmlessly on the fixed code)
        dumps["asis"] = (pool.submit(ctx.tlc, SPEC, "Dump_ActorTurn_restart_asis_q.cfg", module="MC_ActorTurn", timeout=1800, dump_dot=True),
                         {"p1": 1}, {"restarts": 1}, 300 if quick else 2000)
        modes = (0, 1)
        kinds = ("mpsc", "seg", "fair", "nbring", "bounded")

    # ---- free-running histories (real workers, no gating)
    def stress(kind, restarts):      # restarts = disturbance mode: 0 none, 1 Restart, 2 external Stop, 3 PoisonPill
        t = ctx.tmp("stress-%s-%d.ndjson" % (kind, restarts))
        n = 60 if quick else 600
        p = ctx.run([exe, "stress", str(n), "3", "3", str(ctx.seed * 100 + len(kind) + restarts), t, "2", kind, str(restarts)], timeout=1800)
        rs = json.loads(p.stdout.strip().splitlines()[-1])
        mm, nl = monitor(ctx, t, "stress-%s-%d" % (kind, restarts))
        return ("stress %s mode=%d" % (kind, restarts)), rs, mm, nl, t

    sfuts = [pool.submit(stress, k, r) for k in kinds for r in modes]

    # ---- random schedules over the real code's own gates (no model prescribes the order; catches code that left the model)
    def explore(mode, nprod, nmsgs):
        t = ctx.tmp("explore-%d-%d.ndjson" % (mode, nprod))
        n = 250 if quick else 3000
        if mode == 4:
            n = 40 if quick else 400     # supervised restart after a panic: each run holds a worker ~120 ms
        p = ctx.run([exe, "explore", str(n), str(nprod), str(nmsgs), str(ctx.seed * 10 + mode), t, "2", str(mode)], timeout=3000)
        rs = json.loads(p.stdout.strip().splitlines()[-1])
        mm, nl = monitor(ctx, t, "explore-%d-%d" % (mode, nprod))
        if mode == 4:       # supervised restart: the supervisor's goroutine is not part of ActorTurn.tla
            return ("explore SUPERVISED-RESTART producers=%d" % nprod), rs, mm, nl, t
        if mode >= 10:      # grain runs: judged by the monitor only (ActorTurn.tla's step names are the PID's)
            return ("explore GRAIN mode=%d producers=%d" % (mode, nprod)), rs, mm, nl, t
        # code -> spec conformance at gate granularity: every explored execution must be a behaviour of ActorTurn.tla
        cfg = ctx.tmp("Trace_ActorTurn_%d_%d.cfg" % (mode, nprod))
        with open(cfg, "w") as f:
            f.write('SPECIFICATION TSpec\nCONSTANTS\n  Producers = {%s}\n  NMsgs <- Msgs%d\n  Budget = 2\n  MaxTurns = 24\n'
                    '  Restarts = %d\n  Stops = %d\n  Pills = %d\n  Defects = {"StopRace"}\n  RankOf <- Ranks\nCHECK_DEADLOCK FALSE\n'
                    % (", ".join('"p%d"' % i for i in range(1, nprod + 1)), nmsgs, int(mode == 1), int(mode == 2), int(mode == 3)))
        name = os.path.basename(cfg)
        r = ctx.tlc(SPEC, name, module="MC_Trace_ActorTurn", dfs=True, files={"trace.ndjson": t, name: cfg}, timeout=3000,
                    heap="6g", name="conf-%d-%d" % (mode, nprod), expect_fail=True)
        reached = len(vlib.tuples(r.out, "CONF"))
        rows_ = vlib.read_ndjson(t)
        noncomp, cur = 0, False
        for e in rows_:
            if e["ev"] == "New":
                noncomp += int(cur)
                cur = False
            elif e["ev"] == "concurrent":
                cur = True
        with conf_lock:
            conformance["histories"] += rs["behaviours"]
            conformance["not_comparable"] += noncomp      # a step overlapped with a thread blocked inside the code (load)
            conformance["accepted"] += (max(0, reached - 1) if r.depth != nl + 1 else rs["behaviours"])
            if r.depth != nl + 1 and not conformance["first_rejection"]:
                conformance["first_rejection"] = "explore mode=%d producers=%d: trace line %d" % (mode, nprod, r.depth)
        return ("explore mode=%d producers=%d" % (mode, nprod)), rs, mm, nl, t

    sfuts += [pool.submit(explore, m, np_, nm) for m in modes for (np_, nm) in ((2, 3), (3, 2))]
    if pid == "C06":
        # a panic in Receive under a Restart directive: the supervisor's restartChild goroutine (adopted at restart.wait)
        # re-initialises the SUSPENDED actor while dispatcher workers keep draining its mailbox
        sfuts.append(pool.submit(explore, 4, 2, 3))
    if pid in ("C01", "C03"):
        # grains have their own copy of the turn machine: 10 = plain grain, 11 = grain whose OnDeactivate fails with a short
        # deactivate-after (the only way one grainPID is activated twice: re-activation in place)
        sfuts += [pool.submit(explore, m, 2, 3) for m in ((10, 11) if pid == "C01" else (10,))]

    # ---- spec -> code
    def replay(label, dump_fut, nmsgs, ops, nsel):
        d = dump_fut.result()
        g = tlagraph.Graph.load(os.path.join(d.rundir, "graph.dot"))
        walks, left = g.edge_cover(rng)
        if left:
            raise vlib.Infra("edge cover incomplete (%s)" % label)
        sel = vlib.sample(rng, walks, nsel)
        beh = behaviours(g, sel, nmsgs, ops)
        bfile = ctx.tmp("beh-%s.ndjson" % label)
        trace = ctx.tmp("trace-%s.ndjson" % label)
        vlib.write_ndjson(bfile, beh)
        p = ctx.run([exe, "replay", bfile, trace, "2"], timeout=3000)
        rs = json.loads(p.stdout.strip().splitlines()[-1])
        mm, nl = monitor(ctx, trace, "replay-" + label)
        samples.append({label + "_walk": [[s["a"]] + s["args"] for s in beh[0]["steps"]][:40]})
        return ("replay %s (%d of %d edge-cover walks)" % (label, len(sel), len(walks))), rs, mm, nl, trace

    rfuts = [pool.submit(replay, k, *v) for k, v in dumps.items()]

    def finish(violations=0):
        st, tr = ctx.states()
        cov = {"states": st, "transitions": tr, "traces_validated_against_impl": tot["hist"], "samples": samples[:4],
               "evaluations": tot["hist"], "distinct_nontrivial": tot["walks"],
               "rule": "executions = puppet replays of edge-cover walks of the ActorTurn.tla state graphs (base, restart, pre-fix "
                       "restart) on a real actor system + seeded random (PCT-style, hand-off biased) schedules over the real gates "
                       "+ free-running 3-sender runs per FIFO mailbox kind with/without concurrent Restart/Stop/PoisonPill; distinct_nontrivial = distinct edge-cover walks replayed (each interleaves >= 2 threads)",
               "atomic_steps_replayed": tot["steps"], "replay_drift": tot["drift"], "events_judged": tot["events"],
               "not_quiescent": tot["notq"], "mismatches_for_other_properties": dict(others), "known_finding_hits": dict(known_hits), "gate_level_conformance_of_explored_runs": conformance, "exhaustive": False}
        ctx.evidence("model_checking", cov,
                     ["default (unbounded) mailbox at atomic-step granularity; other FIFO mailboxes through free-running runs",
                      "one actor without children; restart is PID.Restart from an external goroutine; throughput budget 2",
                      "ordering of recorded events: puppet replays are sequential; in free-running runs an event interval "
                      "[enter, exit] / [begin, release] lies inside the real one, so a reported overlap is real"], violations=violations)

    for name, f in futs.items():
        r = f.result()
        if name == "asis" and r.violated != "SingleOwner":
            raise vlib.Infra("ActorTurn.tla with Defects={LateReset} no longer violates SingleOwner (spec changed?)")
        if name == "stop_c06" and r.violated not in ("NoReceiveDuringPostStop", "NoReceiveAfterPostStop"):
            if ctx.is_known("ReceiveAfterPostStop") or ctx.is_known("PostStopDuringReceive"):
                raise vlib.Infra("stale finding: the as-is stop model no longer violates the C06 invariants")
    for fut in rfuts + sfuts:
        label, rs, mm, nl, trace = fut.result()
        tot["walks"] += rs["behaviours"] if label.startswith("replay") else 0
        tot["hist"] += rs["behaviours"]
        tot["steps"] += rs["steps"]
        tot["drift"] += rs["drift"]
        tot["events"] += nl
        tot["notq"] += rs["not_quiescent"]
        mine = [m for m in mm if m[0] == pid]
        if pid == "C06" and mine:
            rows_ = vlib.read_ndjson(trace)
            rest = []
            for m in mine:
                fid = C06_KNOWN.get(m[2])
                st_ = max(i for i in range(m[1]) if rows_[i]["ev"] == "New")
                external = any(e["ev"] in ("stopcall", "restartcall") for e in rows_[st_:m[1]])
                k = ctx.is_known(fid) if fid else None
                if k and external:
                    known_hits[fid] += 1
                    ctx.report_known(fid, k["what"])
                else:
                    rest.append(m)
            mine = rest
        for m in mm:
            if m[0] != pid:
                others[m[0]] += 1
        ctx.log("%s: %d executions, %d steps, drift %d, %d events, mismatches %s" %
                (label, rs["behaviours"], rs["steps"], rs["drift"], nl, dict(collections.Counter(m[0] for m in mm))))
        if mine:
            rows = vlib.read_ndjson(trace)
            ln = mine[0][1]
            start = max(i for i in range(ln) if rows[i]["ev"] == "New")
            end = next((i for i in range(ln, len(rows)) if rows[i]["ev"] == "New"), len(rows))
            snippet = ctx.tmp("violation.ndjson")
            vlib.write_ndjson(snippet, rows[start:end])
            rp = ctx.save_replay("seed%d" % ctx.seed, snippet)
            finish(violations=len(mine))
            raise vlib.Violation(pid, rp, "%s: %s (trace line %d of %s; %d mismatches for %s)" % (label, mine[0][2], ln, os.path.basename(trace), len(mine), pid))
    pool.shutdown()
    finish()
