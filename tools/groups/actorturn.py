"""C01, C02, C03 — the per-actor scheduling machine: single-threaded handler, exactly-once / no lost wake-up, per-sender FIFO.

Design:    specs/ActorTurn/ActorTurn.tla — doReceive / runTurn / finishOrReclaim / dispatchState / default mailbox /
           external Restart at verifhook granularity; TLC exhaustive (safety) + FairSpec liveness (no lost wake-up).
spec->code: walks covering every edge of the bounded state graphs are executed on a REAL actor system: producers and
           the restarter are harness goroutines, goakt's own dispatcher workers are adopted as turn tokens when they
           reach ds.take.cas, each stepped one gate at a time (harness/cmd/actorturn).
code->spec: handler enter/exit, turn begin/release, Tell results and lifecycle callbacks of those replays and of free-running
           many-sender runs (all FIFO mailbox kinds, BatchTell, concurrent Restart) are judged by TLC with TurnMonitor.tla.
"""
import json, os, re, collections, threading, concurrent.futures
import vlib, tlagraph

PROPERTIES = ["C01", "C02", "C03"]
SPEC = "ActorTurn"

WHAT = {
    "C01": "no two handler invocations / turn owners at once",
    "C02": "accepted messages handled exactly once; actor drains (no lost wake-up)",
    "C03": "messages of one sender handled in send order",
}


def monitor(ctx, trace, label):
    r = ctx.tlc(SPEC, "TurnMonitor.cfg", module="TurnMonitor", dfs=True, files={"trace.ndjson": trace}, timeout=3000,
                heap="6g", name="mon-" + label)
    n = sum(1 for _ in open(trace))
    if r.depth != n + 1:
        raise vlib.Infra("monitor consumed %d of %d trace lines (%s)" % (r.depth - 1, n, label))
    return [(m.group(1), int(m.group(2)), m.group(3)) for m in
            re.finditer(r'<<"MISMATCH", "(C\d+)", (\d+), "([^"]*)">>', r.out)], n


def behaviours(g, walks, nmsgs, restarts):
    return [{"steps": [{"a": s["a"], "args": s["args"]} for s in w], "nmsgs": nmsgs, "restarts": restarts} for w in walks]


def run(ctx, pid):
    quick = ctx.quick
    rng = ctx.rng
    exe = ctx.build("actorturn")
    pool = concurrent.futures.ThreadPoolExecutor(max_workers=4)
    tot = {"walks": 0, "steps": 0, "drift": 0, "hist": 0, "events": 0, "notq": 0}
    samples = []
    others = collections.Counter()

    # ---- design level (the exhaustive runs also dump their state graphs for the edge cover)
    futs = {
        "base": pool.submit(ctx.tlc_must_hold, SPEC, "MC_ActorTurn.cfg", module="MC_ActorTurn", timeout=3000, workers=4, dump_dot=True),
        "restart": pool.submit(ctx.tlc_must_hold, SPEC, "MC_ActorTurn_restart_q.cfg", module="MC_ActorTurn", timeout=3000, workers=4,
                               dump_dot=True),
        "asis": pool.submit(ctx.tlc, SPEC, "MC_ActorTurn_restart_asis.cfg", module="MC_ActorTurn", timeout=900, expect_fail=True),
    }
    if pid == "C02" or not quick:
        futs["live"] = pool.submit(ctx.tlc_must_hold, SPEC, "MC_ActorTurn_live.cfg", module="MC_ActorTurn", timeout=3000, workers=4)
    if not quick:
        futs["base_t"] = pool.submit(ctx.tlc_must_hold, SPEC, "MC_ActorTurn_t.cfg", module="MC_ActorTurn", timeout=3000, workers=8)
        futs["restart_t"] = pool.submit(ctx.tlc_must_hold, SPEC, "MC_ActorTurn_restart.cfg", module="MC_ActorTurn", timeout=3000, workers=8)
    dumps = {
        "base": (futs["base"], {"p1": 2, "p2": 1}, 0, 1200 if quick else 12000),
        "restart": (futs["restart"], {"p1": 2}, 1, 500 if quick else 6000),
        # regression witnesses: walks of the model of the code BEFORE the restart fix (they drift harmlessly on the fixed code)
        "asis": (pool.submit(ctx.tlc, SPEC, "Dump_ActorTurn_restart_asis_q.cfg", module="MC_ActorTurn", timeout=1800, dump_dot=True),
                 {"p1": 1}, 1, 300 if quick else 2000),
    }

    # ---- free-running histories (real workers, no gating)
    def stress(kind, restarts):
        t = ctx.tmp("stress-%s-%d.ndjson" % (kind, restarts))
        n = 60 if quick else 600
        p = ctx.run([exe, "stress", str(n), "3", "3", str(ctx.seed * 100 + len(kind) + restarts), t, "2", kind, str(restarts)], timeout=1800)
        rs = json.loads(p.stdout.strip().splitlines()[-1])
        mm, nl = monitor(ctx, t, "stress-%s-%d" % (kind, restarts))
        return ("stress %s restarts=%d" % (kind, restarts)), rs, mm, nl, t

    sfuts = [pool.submit(stress, k, r) for k in ("mpsc", "seg", "fair", "nbring", "bounded") for r in (0, 1)]

    # ---- spec -> code
    def replay(label, dump_fut, nmsgs, restarts, nsel):
        d = dump_fut.result()
        g = tlagraph.Graph.load(os.path.join(d.rundir, "graph.dot"))
        walks, left = g.edge_cover(rng)
        if left:
            raise vlib.Infra("edge cover incomplete (%s)" % label)
        sel = vlib.sample(rng, walks, nsel)
        beh = behaviours(g, sel, nmsgs, restarts)
        bfile = ctx.tmp("beh-%s.ndjson" % label)
        trace = ctx.tmp("trace-%s.ndjson" % label)
        vlib.write_ndjson(bfile, beh)
        p = ctx.run([exe, "replay", bfile, trace, "2"], timeout=3000)
        rs = json.loads(p.stdout.strip().splitlines()[-1])
        mm, nl = monitor(ctx, trace, "replay-" + label)
        samples.append({label + "_walk": [[s["a"]] + s["args"] for s in beh[0]["steps"]][:40]})
        return ("replay %s (%d of %d edge-cover walks)" % (label, len(sel), len(walks))), rs, mm, nl, trace

    rfuts = [pool.submit(replay, k, *v) for k, v in dumps.items()]

    def finish(violations=0):
        st, tr = ctx.states()
        cov = {"states": st, "transitions": tr, "traces_validated_against_impl": tot["hist"], "samples": samples[:4],
               "evaluations": tot["hist"], "distinct_nontrivial": tot["walks"],
               "rule": "executions = puppet replays of edge-cover walks of the ActorTurn.tla state graphs (base, restart, pre-fix "
                       "restart) on a real actor system + free-running 3-sender runs per FIFO mailbox kind with/without concurrent "
                       "Restart; distinct_nontrivial = distinct edge-cover walks replayed (each interleaves >= 2 threads)",
               "atomic_steps_replayed": tot["steps"], "replay_drift": tot["drift"], "events_judged": tot["events"],
               "not_quiescent": tot["notq"], "mismatches_for_other_properties": dict(others), "exhaustive": False}
        ctx.evidence("model_checking", cov,
                     ["default (unbounded) mailbox at atomic-step granularity; other FIFO mailboxes through free-running runs",
                      "one actor without children; restart is PID.Restart from an external goroutine; throughput budget 2",
                      "ordering of recorded events: puppet replays are sequential; in free-running runs an event interval "
                      "[enter, exit] / [begin, release] lies inside the real one, so a reported overlap is real"], violations=violations)

    for name, f in futs.items():
        r = f.result()
        if name == "asis" and r.violated != "SingleOwner":
            raise vlib.Infra("ActorTurn.tla with Defects={LateReset} no longer violates SingleOwner (spec changed?)")
    for fut in rfuts + sfuts:
        label, rs, mm, nl, trace = fut.result()
        tot["walks"] += rs["behaviours"] if label.startswith("replay") else 0
        tot["hist"] += rs["behaviours"]
        tot["steps"] += rs["steps"]
        tot["drift"] += rs["drift"]
        tot["events"] += nl
        tot["notq"] += rs["not_quiescent"]
        mine = [m for m in mm if m[0] == pid]
        for m in mm:
            if m[0] != pid:
                others[m[0]] += 1
        ctx.log("%s: %d executions, %d steps, drift %d, %d events, mismatches %s" %
                (label, rs["behaviours"], rs["steps"], rs["drift"], nl, dict(collections.Counter(m[0] for m in mm))))
        if mine:
            rows = vlib.read_ndjson(trace)
            ln = mine[0][1]
            start = max(i for i in range(ln) if rows[i]["ev"] == "New")
            end = next((i for i in range(ln, len(rows)) if rows[i]["ev"] == "New"), len(rows))
            snippet = ctx.tmp("violation.ndjson")
            vlib.write_ndjson(snippet, rows[start:end])
            rp = ctx.save_replay("seed%d" % ctx.seed, snippet)
            finish(violations=len(mine))
            raise vlib.Violation(pid, rp, "%s: %s (trace line %d of %s; %d mismatches for %s)" % (label, mine[0][2], ln, os.path.basename(trace), len(mine), pid))
    pool.shutdown()
    finish()
