"""C14 — behavior switching follows stack semantics; C13 — stash: no loss, no duplication, no reordering.

spec -> code: TLC enumerates every step history of length D of specs/StackStash/BehaviorStack.tla (C14) or
Stash.tla (C13) (BFS over Gen_*), plus random longer walks (-simulate); each history is executed on a REAL
in-process goakt actor system by harness/cmd/stackstash (a puppet actor whose behavior functions park at entry
and perform exactly the calls of the history on their own ReceiveContext; the driver is the only sender).
code -> spec: the recorded NDJSON trace is judged by TLC twice: Trace_StackAbs / Trace_StashAbs (property
monitors that know only the documented contract and predict the invoked behavior function / the delivered
message id / StashSize / recorded error of every step) and Trace_BehaviorStack / Trace_Stash (step-wise
conformance with the transcriptions incl. the projected behavior stack, main mailbox and stash mailbox)."""
import json, os, re, threading
import vlib

PROPERTIES = ["C14", "C13"]
SPEC = "StackStash"
CHUNK = 120000          # trace lines per TLC trace-validation run



def mismatches(out):
    """[(line, kind, expected, observed)] from the monitor's PrintT output (robust against TLC wrapping long tuples)."""
    tups = vlib.tuples(out, "MISMATCH")
    if len(tups) != out.count('"MISMATCH"'):
        raise vlib.Infra("cannot parse every MISMATCH tuple of the monitor (%d parsed, %d printed)" % (len(tups), out.count('"MISMATCH"')))
    res = []
    for t in tups:
        if len(t) != 4 or not isinstance(t[0], int):
            raise vlib.Infra("malformed MISMATCH tuple: %r" % (t,))
        res.append((t[0], str(t[1]), t[2], t[3]))
    return res



def par(jobs, width=3):
    """Run {name: thunk} in at most `width` threads; returns {name: result}; re-raises the first exception."""
    res, errs = {}, []
    sem = threading.Semaphore(width)

    def work(name, thunk):
        with sem:
            try:
                res[name] = thunk()
            except BaseException as ex:     # noqa - re-raised below
                errs.append(ex)
    ths = [threading.Thread(target=work, args=(n, t)) for n, t in jobs.items()]
    for t in ths:
        t.start()
    for t in ths:
        t.join()
    if errs:
        raise errs[0]
    return res


def gen_behaviours(ctx, module, cfg, simulate=None, depth=None, timeout=900):
    r = ctx.tlc(SPEC, cfg, module=module, simulate=simulate, depth=depth, deadlock_check=False, timeout=timeout,
                workers=1 if simulate else None, name=cfg[:-4] + ("-sim" if simulate else ""))
    return vlib.parse_sim_behaviours(r.out)


def chunks(rows):
    """Split the trace at "New" lines into pieces of at most ~CHUNK lines: [(first_line_index, rows)]."""
    out, start = [], 0
    last_new = 0
    for i, r in enumerate(rows):
        if r["op"] == "New":
            if i - start >= CHUNK:
                out.append((start, rows[start:i]))
                start = i
            last_new = i
    out.append((start, rows[start:]))
    return out


def judge(ctx, rows, monitor, monitor_cfg, conf, conf_cfg, name):
    """Run the monitor and the conformance spec over the trace (side by side, one TLC worker each).
    Returns (mismatches, drift); mismatches = [(global_line(1-based), kind, expected, observed)]."""
    mism, drift = [], None
    for k, (off, part) in enumerate(chunks(rows)):
        f = ctx.tmp("%s-part%d.ndjson" % (name, k))
        vlib.write_ndjson(f, part)
        box = {}

        def conformance():
            try:
                for attempt in (1, 2):
                    c = ctx.tlc(SPEC, conf_cfg, module=conf, dfs=True, files={"trace.ndjson": f}, timeout=2400, heap="8g",
                                expect_fail=True, name="%s-conf%d-%d" % (name, k, attempt))
                    if c.finished or c.violated or c.error:
                        break
                    ctx.log("conformance TLC run ended without a result (exit %s), retrying" % c.exit)
                else:
                    raise vlib.Infra("conformance TLC run ended twice without a result:\n" + c.out[-1500:])
                box["c"] = c
            except Exception as ex:          # re-raised in the main thread
                box["err"] = ex
        th = None
        if drift is None:
            th = threading.Thread(target=conformance)
            th.start()
        try:
            mon = ctx.tlc(SPEC, monitor_cfg, module=monitor, dfs=True, files={"trace.ndjson": f}, timeout=2400, heap="8g",
                          name="%s-mon%d" % (name, k))
        finally:
            if th:
                th.join()
        if mon.depth != len(part) + 1:
            raise vlib.Infra("monitor %s did not consume the whole trace (%d of %d)" % (monitor, mon.depth - 1, len(part)))
        for line, kind, exp, got in mismatches(mon.out):
            mism.append((off + line, kind, exp, got))
        if "err" in box:
            raise box["err"]
        c = box.get("c")
        if c is not None:
            if c.violated:
                drift = "invariant %s of the transcription violated on the real trace at line %d" % (c.violated, off + c.depth)
            elif c.error:
                raise vlib.Infra("conformance spec error:\n" + c.error)
            elif c.depth != len(part) + 1:
                drift = "trace rejected by %s at line %d of %d: %s" % (conf, off + c.depth, len(rows),
                                                                        json.dumps(rows[off + c.depth - 1])[:300])
    return mism, drift


def cut_behaviour(rows, line):
    """Rows of the behaviour that contains 1-based trace line `line`."""
    i = line - 1
    start = max(j for j in range(i + 1) if rows[j]["op"] == "New")
    end = next((j for j in range(i + 1, len(rows)) if rows[j]["op"] == "New"), len(rows))
    return rows[start:end], i - start


def replay(ctx, mode, behaviours):
    bfile = ctx.tmp(mode + "-behaviours.ndjson")
    vlib.write_ndjson(bfile, behaviours)
    exe = ctx.build("stackstash")
    trace = ctx.tmp(mode + "-trace.ndjson")
    p = ctx.run([exe, "replay", mode, bfile, trace], timeout=1800)
    stats = json.loads(p.stdout.strip().splitlines()[-1])
    rows = vlib.read_ndjson(trace)
    if stats["events"] != len(rows):
        raise vlib.Infra("trace truncated")
    if stats.get("hung"):
        # a hang is infrastructure, but what was recorded before it is still judged by the monitor
        ctx.log("driver watchdog fired after %d behaviours: %s" % (stats["behaviours"], stats["hung"]))
        last_new = max(i for i, r in enumerate(rows) if r["op"] == "New")
        if stats["behaviours"] == 0:
            raise vlib.Infra("driver hung in the first behaviour: " + stats["hung"])
    return rows, stats, trace


def ops_of(b):
    return [[o["op"], o.get("b", ""), o.get("id", 0)] for o in b if o["op"] != "Init"]


# ------------------------------------------------------------------------------------------ C14
SWITCH = ("Become", "BecomeStacked", "UnBecomeStacked", "UnBecome")


def run_stack(ctx, pid):
    quick = ctx.quick
    g = par({
        "mc": lambda: ctx.tlc_must_hold(SPEC, "MC_BehaviorStack.cfg" if quick else "MC_BehaviorStack_t.cfg", module="MC_BehaviorStack",
                                        timeout=1500),
        # the Defects branch must really be the deviation the finding describes: TLC has to refute the property with it
        "defect": lambda: ctx.tlc(SPEC, "MC_BehaviorStack_defect.cfg", module="MC_BehaviorStack", timeout=600, expect_fail=True),
        "exh": lambda: gen_behaviours(ctx, "Gen_BehaviorStack", "Gen_BehaviorStack.cfg" if quick else "Gen_BehaviorStack_t.cfg"),
        "sim": lambda: gen_behaviours(ctx, "Gen_BehaviorStack", "Sim_BehaviorStack.cfg", simulate="num=%d" % (150 if quick else 1200)),
        # histories with PID.Restart / a panicking handler restarted by the supervisor (an explicit restart costs
        # >= 10 ms of real time: bounded separately)
        "rst": lambda: gen_behaviours(ctx, "Gen_BehaviorStack", "GenR_BehaviorStack.cfg" if quick else "GenR_BehaviorStack_t.cfg"),
    })
    ctx.log("design: %d distinct states; the transcription (repaired) refines the documented stack" % g["mc"].distinct)
    if g["defect"].violated != "HandlerIsIdealTop":
        raise vlib.Infra("Defects={UnBecomePushes} no longer violates HandlerIsIdealTop (stale Defects branch?)")
    exh, sim = g["exh"], g["sim"]
    rst = [b for b in g["rst"] if any(o["op"] in ("Restart", "Crash") for o in b)]
    if len(exh) < 1000 or len(sim) < 100 or len(rst) < 100:
        raise vlib.Infra("behaviour generation produced too little (%d exhaustive, %d random, %d with restart)" % (len(exh), len(sim), len(rst)))
    behaviours = exh + rst + sim
    ctx.log("behaviours: %d exhaustive + %d exhaustive with Restart/Crash + %d random" % (len(exh), len(rst), len(sim)))

    rows, stats, trace = replay(ctx, "stack", behaviours)
    ctx.log("replayed on the real actor system: %d events in %d ms" % (stats["events"], stats["wall_ms"]))
    mism, drift = judge(ctx, rows, "Trace_StackAbs", "Trace_StackAbs.cfg", "Trace_BehaviorStack", "Trace_BehaviorStack.cfg", "stack")

    def nontrivial(b):
        ops = [o["op"] for o in b]
        sw = [i for i, o in enumerate(ops) if o in SWITCH]
        return bool(sw) and any(o == "Deliver" for o in ops[sw[0]:])
    distinct = {json.dumps(ops_of(b)) for b in behaviours if nontrivial(b)}
    deaf = sum(1 for r in rows if r["op"] == "Deliver" and r["h"] == "none")
    cov = {
        "states": ctx.states()[0], "transitions": ctx.states()[1],
        "traces_validated_against_impl": stats["behaviours"],
        "samples": [ops_of(behaviours[0]), ops_of(behaviours[len(exh) // 2]), ops_of(behaviours[-1])],
        "evaluations": stats["behaviours"], "distinct_nontrivial": len(distinct),
        "rule": "every step history of length D over {Deliver, Become(b), BecomeStacked(b), UnBecomeStacked, UnBecome} allowed by "
                "BehaviorStack.tla (TLC BFS), every history of length D-1 that also contains PID.Restart or Crash (the handler panics, supervisor directive Restart), plus TLC random walks, each executed on a fresh real actor and followed by an epilogue that "
                "pops the whole stack one UnBecomeStacked per message; non-trivial = contains a switch call followed by a later Deliver; "
                "distinct = distinct step sequences",
        "exhaustive": True, "exhaustive_histories": len(exh), "exhaustive_histories_with_restart": len(rst),
        "random_walks": len(sim), "events_validated": len(rows),
        "deliveries_without_handler": deaf, "restarts_executed": sum(1 for r in rows if r["op"] == "Restart"),
        "supervisor_restarts_after_panic": sum(1 for r in rows if r["op"] == "Crash"),
        "monitor_mismatches": len(mism), "conformance_drift": drift,
    }
    assumptions = [
        "the switch calls are made by the handler of the current message on its own ReceiveContext (single-threaded use, as documented); "
        "concurrent use of the lock-free stack from several goroutines is not explored",
        "UnBecomeStacked on a stack holding one behavior is taken literally (pop => no behavior => later messages are dropped "
        "without any handler), which is what the code does and what the documentation leaves open; see docs/stackstash.md",
        "exhaustive only up to the stated history length; behaviors are told apart by the code pointer of their method values",
    ]
    if mism:
        line, kind, exp, got = mism[0]
        # classification: are all deviations those of the finding UnBecomePushes (contract of the code as found)?
        explained = False
        try:
            part, _ = cut_behaviour(rows, line)
            f = ctx.tmp("classify.ndjson")
            vlib.write_ndjson(f, part)
            m2 = ctx.tlc(SPEC, "Trace_StackAbs_found.cfg", module="Trace_StackAbs", dfs=True, files={"trace.ndjson": f}, timeout=300)
            explained = m2.depth == len(part) + 1 and not mismatches(m2.out)
        except vlib.Infra:
            pass
        snippet = ctx.tmp("violation.ndjson")
        part, idx = cut_behaviour(rows, line)
        vlib.write_ndjson(snippet, part)
        msg = ("monitor: message handled by behavior %s, the documented stack says %s (trace line %d = step %d of the saved behaviour; "
               "%d mismatches in %d behaviours)" % (got, exp, line, idx + 1, len(mism), len(behaviours))) if kind == "handler" else \
              ("monitor: %s expected %s observed %s (trace line %d; %d mismatches)" % (kind, exp, got, line, len(mism)))
        if explained:
            msg += "; the saved behaviour is accepted by the contract of finding UnBecomePushes (resetBehavior pushes instead of clearing)"
            if ctx.is_known("UnBecomePushes") and all(k == "handler" for _, k, _, _ in mism):
                # only when *every* behaviour with a mismatch is explained
                bad = sorted({cut_start(rows, l) for l, _, _, _ in mism})
                if all_explained(ctx, rows, bad):
                    ctx.report_known("UnBecomePushes", "UnBecome leaves stacked behaviors in place; %d deliveries handled by a resurrected behavior" % len(mism))
                    cov["known_mismatches"] = len(mism)
                    ctx.evidence("model_checking", cov, assumptions)
                    return
        rp = ctx.save_replay("seed%d" % ctx.seed, snippet, text="\n".join(map(str, mism[:200])))
        ctx.evidence("model_checking", cov, assumptions, violations=len(mism))
        raise vlib.Violation(pid, rp, msg)
    if stats.get("hung"):
        raise vlib.Infra("driver watchdog: %s (no monitor mismatch in the part recorded before)" % stats["hung"])
    if drift:
        ctx.log("conformance drift (not a verdict): " + drift)
    ctx.evidence("model_checking", cov, assumptions)


def cut_start(rows, line):
    i = line - 1
    return max(j for j in range(i + 1) if rows[j]["op"] == "New")


def all_explained(ctx, rows, starts):
    parts = []
    for s in starts:
        end = next((j for j in range(s + 1, len(rows)) if rows[j]["op"] == "New"), len(rows))
        parts += rows[s:end]
    f = ctx.tmp("classify-all.ndjson")
    vlib.write_ndjson(f, parts)
    m = ctx.tlc(SPEC, "Trace_StackAbs_found.cfg", module="Trace_StackAbs", dfs=True, files={"trace.ndjson": f}, timeout=1200)
    return m.depth == len(parts) + 1 and not mismatches(m.out)


# ------------------------------------------------------------------------------------------ C13
STASHOPS = ("Stash", "Unstash", "UnstashAll")


def run_stash(ctx, pid):
    quick = ctx.quick
    g = par({
        "mcA": lambda: ctx.tlc_must_hold(SPEC, "MC_Stash.cfg" if quick else "MC_Stash_t.cfg", module="MC_Stash", timeout=1700,
                                         deadlock_check=False),
        "exhA": lambda: gen_behaviours(ctx, "Gen_Stash", "Gen_Stash.cfg" if quick else "Gen_Stash_t.cfg"),
        # the non-default main mailboxes (bounded, NonBlockingBounded ring, stable priority; thorough also segmented) get
        # every history one step shorter, stash buffer on
        "exhK": lambda: gen_behaviours(ctx, "Gen_Stash", "GenK_Stash.cfg" if quick else "GenK_Stash_t.cfg"),
        "simA": lambda: gen_behaviours(ctx, "Gen_Stash", "Sim_Stash.cfg", simulate="num=%d" % (150 if quick else 3000)),
        "mcB": lambda: ctx.tlc_must_hold(SPEC, "MC_ReStash.cfg" if quick else "MC_ReStash_t.cfg", module="MC_ReStash", timeout=1700,
                                         deadlock_check=False),
        "exhB": lambda: gen_behaviours(ctx, "Gen_ReStash", "Gen_ReStash.cfg" if quick else "Gen_ReStash_t.cfg"),
        "simB": lambda: gen_behaviours(ctx, "Gen_ReStash", "Sim_ReStash.cfg", simulate="num=%d" % (150 if quick else 3000)),
    })
    # ---- A: explicit Stash / Unstash / UnstashAll;  B: the stash driven by reentrancy mode StashNonReentrant
    ctx.log("design A (Stash/Unstash/UnstashAll): %d distinct states; no loss / duplication / reordering" % g["mcA"].distinct)
    ctx.log("design B (StashNonReentrant, dispatchOne / deregisterRequestState): %d distinct states; no loss / duplication, stash order, "
            "exclusion" % g["mcB"].distinct)
    exh, sim, exh2, sim2 = g["exhA"] + g["exhK"], g["simA"], g["exhB"], g["simB"]
    if min(len(exh), len(exh2)) < 1000 or min(len(sim), len(sim2)) < 100:
        raise vlib.Infra("behaviour generation produced too little (%d/%d exhaustive, %d/%d random)" % (len(exh), len(exh2), len(sim), len(sim2)))
    behaviours, beh2 = exh + sim, exh2 + sim2
    ctx.log("behaviours: A %d exhaustive + %d random; B %d exhaustive + %d random" % (len(exh), len(sim), len(exh2), len(sim2)))
    rows, stats, trace = replay(ctx, "stash", behaviours)
    ctx.log("A replayed on the real actor system: %d events in %d ms" % (stats["events"], stats["wall_ms"]))
    if stats["behaviours"] != len(behaviours):
        ctx.log("driver stopped after %d behaviours (%d anomalies)" % (stats["behaviours"], stats["anomalies"]))
    rows2, stats2, _ = replay(ctx, "restash", beh2)
    ctx.log("B replayed on the real actor system: %d events in %d ms" % (stats2["events"], stats2["wall_ms"]))
    j = par({
        "A": lambda: judge(ctx, rows, "Trace_StashAbs", "Trace_StashAbs.cfg", "Trace_Stash", "Trace_Stash.cfg", "stash"),
        "B": lambda: judge(ctx, rows2, "Trace_ReStashAbs", "Trace_ReStashAbs.cfg", "Trace_ReStash", "Trace_ReStash.cfg", "restash"),
    })
    (mism, drift), (mism2, drift2) = j["A"], j["B"]

    def nontrivial(b):
        ops = [o["op"] for o in b]
        return b[0].get("buffer") and "Stash" in ops and ("Unstash" in ops or "UnstashAll" in ops)

    def nontrivial2(b):
        # a message is sent while a request is open and that request is answered later
        ops = [o["op"] for o in b]
        if "Request" not in ops or "Respond" not in ops:
            return False
        i = ops.index("Request")
        return "Send" in ops[i:] and "Respond" in ops[i:]
    distinct = {json.dumps(ops_of(b)) for b in behaviours if nontrivial(b)} | {"B" + json.dumps(ops_of(b)) for b in beh2 if nontrivial2(b)}
    released = sum(1 for r in rows if r["op"] in ("Unstash", "UnstashAll") and r.get("err") == "")
    nb = stats["behaviours"] + stats2["behaviours"]
    cov = {
        "states": ctx.states()[0], "transitions": ctx.states()[1],
        "traces_validated_against_impl": nb,
        "samples": [ops_of(behaviours[0]), ops_of(behaviours[len(exh) // 2]), ops_of(behaviours[-1])] +
                   ([ops_of(beh2[len(exh2) // 2]), ops_of(beh2[-1])] if beh2 else []),
        "evaluations": nb, "distinct_nontrivial": len(distinct),
        "rule": "A: every step history of length D over {Send, Deliver, Stash, Unstash, UnstashAll} allowed by Stash.tla, with and without "
                "a stash buffer (TLC BFS), on the default UnboundedMailbox and (length D-1, 3 messages, stash buffer on) on BoundedMailbox, "
                "NonBlockingBoundedMailbox, UnboundedStablePriorityMailbox (thorough also UnboundedSegmentedMailbox) as main mailbox, plus TLC "
                "random walks over all five kinds; each executed on a fresh real actor (messages sent by Tell, Ask and "
                "Tell-from-an-actor in turn) and followed by an epilogue that drains the mailbox, releases the whole stash and drains again; "
                "non-trivial = actor has a stash buffer and the history contains a Stash and an Unstash/UnstashAll. "
                "B: every step history of length D over {Send, Request(StashNonReentrant), Respond(rq), Finish} allowed by ReStash.tla plus random "
                "walks, executed on a fresh real actor with one real responder actor per request, epilogue answers all requests and lets all "
                "handlers return; non-trivial = a message is sent while a request is open and the request is answered. distinct = distinct step sequences",
        "exhaustive": True, "exhaustive_histories": len(exh) + len(exh2), "random_walks": len(sim) + len(sim2),
        "events_validated": len(rows) + len(rows2),
        "A_behaviours": stats["behaviours"], "B_behaviours": stats2["behaviours"],
        "A_behaviours_by_mailbox_kind": {k: sum(1 for b in behaviours if b[0].get("kind", "unbounded") == k)
                                         for k in sorted({b[0].get("kind", "unbounded") for b in behaviours})},
        "successful_release_calls": released,
        "requests_completed": sum(1 for r in rows2 if r["op"] == "Respond"),
        "ask_anomalies": stats["anomalies"] + stats2["anomalies"],
        "monitor_mismatches": len(mism) + len(mism2), "conformance_drift": drift or drift2,
    }
    assumptions = [
        "one sender thread (the driver); Unstash/UnstashAll run inside the handler, so no foreign enqueue interleaves with the "
        "re-enqueue loop of unstashAll; main mailbox kinds: unbounded (default), bounded, non-blocking ring, stable priority with a constant priority, segmented "
        "(all FIFO for one sender); the fair and the unstable priority mailboxes are not FIFO for this traffic and are left out",
        "a message is stashed at most once per delivery (a handler that calls Stash twice duplicates the message by construction)",
        "released messages re-enter at the mailbox TAIL (what the code does; the property speaks about stash order only): messages already "
        "waiting in the mailbox are handled before the released ones, see docs/stackstash.md",
        "the recorded error of a call is read from the ReceiveContext through the verif-tag shim VerifContextErr; the supervisor of the "
        "puppet actor resumes on any error so that the actor keeps running after ErrStashBufferNotSet",
        "exhaustive only up to the stated history length and message count",
    ]
    for mm, rr, st, what in ((mism, rows, stats, "stash"), (mism2, rows2, stats2, "reentrancy stash")):
        if mm:
            line, kind, exp, got = mm[0]
            snippet = ctx.tmp("violation.ndjson")
            part, idx = cut_behaviour(rr, line)
            vlib.write_ndjson(snippet, part)
            rp = ctx.save_replay("seed%d" % ctx.seed, snippet, text="\n".join(map(str, mm[:200])))
            ctx.evidence("model_checking", cov, assumptions, violations=len(mm))
            raise vlib.Violation(pid, rp, "monitor (%s): %s: the contract says %s, the real actor showed %s (trace line %d = step %d of the "
                                 "saved behaviour; %d mismatches in %d behaviours)" % (what, kind, exp, got, line, idx + 1, len(mm), st["behaviours"]))
    for st in (stats, stats2):
        if st.get("hung"):
            raise vlib.Infra("driver watchdog: %s (no monitor mismatch in the part recorded before)" % st["hung"])
    for d in (drift, drift2):
        if d:
            ctx.log("conformance drift (not a verdict): " + d)
    ctx.evidence("model_checking", cov, assumptions)


def run(ctx, pid):
    if pid == "C14":
        return run_stack(ctx, pid)
    if pid == "C13":
        return run_stash(ctx, pid)
    raise vlib.Infra("unknown property " + pid)
