"""C12 — passivation only removes actors that are truly idle;  C31 — grain activations are ordered and single-threaded.

C12
Design:     specs/Passivation/Passivate.tla — passivationManager (deadline heap, trigger: pop under mu / unlock / passivate / re-lock,
            Touch, Register / Unregister / Pause / Resume, message-count entries and their trigger channel) and the PID side
            (markActivity + Touch coalescing, tryPassivation guards + stopLocker, pause / resume messages, suspend / reinstate with
            skip-next, external Shutdown) over a discrete clock. TLC: the repaired design (Defects = {}) satisfies every clause;
            each named defect of the code as it is violates its clause.
spec->code: walks covering every edge of the state graphs of the AS-IS model are executed on a REAL actor system: the real manager
            goroutine, goakt's dispatcher workers and the supervision consumer are adopted by the puppet scheduler at their hooks and
            stepped gate by gate; Tick is a real sleep (harness/cmd/passivation replay).
code->spec: (a) PassMonitor.tla judges handler-entry times / flags / counts / PostStop runs at every passivation decision of those
            replays and of free-running actors with traffic timed around the deadline (this decides VIOLATION);
            (b) Trace_Passivate.tla: the logged (action, projected real state) sequences must be behaviours of Passivate.tla (drift).
"""
import json, os, re, random, collections, concurrent.futures, threading
import vlib, tlagraph

PROPERTIES = ["C12", "C31"]
SPEC = "Passivation"

TICK_MS = 300          # one model tick in the replays (T = 3 ticks = 900 ms)
SLACK_MS = 200         # 100 ms documented Touch coalescing + 100 ms scheduling noise (shared, loaded machine)

# Defects of Passivate.tla that describe the tree under test (findings recorded as "known"); "NoRecheck" was repaired in /repo
REAL_DEFECTS = ["StaleTurnClock", "StaleCountTrigger"]

# how a C12 monitor failure is recognised as a recorded finding (see classify)
WHAT_IDLE = "passivated although a message was handled within the last T"
WHAT_FLAGS = "passivation decided while paused / suspended / stopping / not running"
WHAT_COUNT = "message-count strategy passivated before N messages since registration"
WHAT_TWICE = "PostStop ran twice"


# ---------------------------------------------------------------- TLA value text -> python
def tla_value(s):
    pos = [0]

    def ws():
        while pos[0] < len(s) and s[pos[0]].isspace():
            pos[0] += 1

    def val():
        ws()
        c = s[pos[0]]
        if s.startswith("<<", pos[0]):
            pos[0] += 2
            out = []
            ws()
            while not s.startswith(">>", pos[0]):
                out.append(val())
                ws()
                if s[pos[0]] == ",":
                    pos[0] += 1
                ws()
            pos[0] += 2
            return out
        if c == "{":
            pos[0] += 1
            out = []
            ws()
            while s[pos[0]] != "}":
                out.append(val())
                ws()
                if s[pos[0]] == ",":
                    pos[0] += 1
                ws()
            pos[0] += 1
            return out
        if c == "[":
            pos[0] += 1
            out = {}
            ws()
            while s[pos[0]] != "]":
                m = re.compile(r"(\w+)\s*\|->").match(s, pos[0])
                pos[0] = m.end()
                out[m.group(1)] = val()
                ws()
                if s[pos[0]] == ",":
                    pos[0] += 1
                ws()
            pos[0] += 1
            return out
        if c == '"':
            e = s.index('"', pos[0] + 1)
            v = s[pos[0] + 1:e]
            pos[0] = e + 1
            return v
        m = re.compile(r"-?\d+|TRUE|FALSE").match(s, pos[0])
        pos[0] = m.end()
        t = m.group(0)
        return True if t == "TRUE" else False if t == "FALSE" else int(t)

    return val()


_TLC_SLOTS = threading.Semaphore(6)      # at most 6 TLC JVMs at once (shared machine)


def tlc(ctx, must_hold, *a, **kw):
    with _TLC_SLOTS:
        return (ctx.tlc_must_hold if must_hold else ctx.tlc)(*a, **kw)


def monitor(ctx, spec, module, trace, label):
    r = tlc(ctx, False, spec, module + ".cfg", module=module, dfs=True, files={"trace.ndjson": trace}, timeout=1800, heap="4g", name="mon-" + label)
    n = sum(1 for _ in open(trace))
    if r.depth != n + 1:
        raise vlib.Infra("monitor consumed %d of %d trace lines (%s)" % (r.depth - 1, n, label))
    mm = vlib.tuples(r.out, "MISMATCH")
    if len(mm) != r.out.count('"MISMATCH"'):
        raise vlib.Infra("unparsed MISMATCH lines in monitor output (%s)" % label)
    return [(m[0], int(m[1]), m[2]) for m in mm], n


def history_of(rows, ln):
    """rows of the history that contains trace line ln (1-based)"""
    i = ln - 1
    start = max(j for j in range(i + 1) if rows[j]["ev"] == "New")
    end = next((j for j in range(i + 1, len(rows)) if rows[j]["ev"] == "New"), len(rows))
    return rows[start:end], i - start


# ---------------------------------------------------------------- C12
def classify_c12(hist, at, what, slack):
    """Which recorded finding (if any) explains this monitor failure: identified by the specific witness in the history."""
    eps = slack - 100
    row = hist[at]
    if what == WHAT_IDLE:
        if row["ev"] == "decision":      # judged at the decision: the offending entry is the latest one logged before it
            dec = row
            last = max([r for r in hist[:at] if r["ev"] == "enter"], key=lambda r: r["t"])
        else:                            # an entry that happened before the decision but was logged after it
            dec = [r for r in hist[:at] if r["ev"] == "decision"][-1]
            last = row
        pops = [r for r in hist if r["ev"] == "pop" and r["t"] <= dec["t"]]
        turns = [r for r in hist[:hist.index(last)] if r["ev"] == "turnbegin"]      # a turn is exclusive: the latest one logged before the entry is its own
        if last["a"] >= 0 and last["t"] - last["a"] > eps and turns and -3 <= last["a"] - turns[-1]["t"] <= eps:
            return "StaleTurnClock"       # the runtime stamped this message with the start time of its (long) turn
        if pops and last["t"] >= pops[-1]["t"] - 1:
            return "NoRecheck"            # handled after the manager had taken the actor off the heap, passivated anyway
        return None
    if what == WHAT_FLAGS:
        return "NoRecheck"                # guards are evaluated before stopLocker only: any flag set at the decision got there in between
    if what == WHAT_TWICE:
        if any(r["ev"] == "stopcall" for r in hist) and any(r["ev"] == "decision" for r in hist):
            return "NoRecheck"            # passivation went on after a concurrent Shutdown had completed
        return None
    if what == WHAT_COUNT:
        # the recorded finding is the IN-PLACE re-registration (Register updates the existing entry: same object, trigger still
        # valid for the identity check). A registration that follows an Unregister (Shutdown / Restart) creates a NEW entry; a
        # trigger of the old one must be dropped by the identity check - if it is served, that is not this finding.
        decs = [i for i, r in enumerate(hist) if r["ev"] == "decision"]
        upto = decs[-1] if decs else at
        regs = [i for i, r in enumerate(hist[:upto]) if r["ev"] == "register"]
        if not regs:
            return None
        prev = regs[-2] if len(regs) > 1 else 0
        if any(r["ev"] == "unregister" for r in hist[prev:regs[-1]]):
            return None
        return "StaleCountTrigger"
    return None


def c12_behaviours(g, walks, sc, scen_id):
    out = []
    for w in walks:
        steps = []
        for s in w:
            stt = g.state(s["to"])
            exp = {"now": int(stt["now"]), "mpc": tla_value(stt["mpc"]), "tpc": tla_value(stt["tpc"]), "xpc": tla_value(stt["xpc"]),
                   "upc": tla_value(stt["upc"]), "nturn": int(stt["nturn"]), "lock": tla_value(stt["mpc"]) == "locked"}
            steps.append({"a": s["a"], "args": s["args"], "exp": exp})
        out.append({"steps": steps, "T": sc["T"], "maxnow": sc["maxnow"], "strategy": sc["strategy"], "N": sc["n"], "msgs": sc["msgs"],
                    "ctls": sc["ctls"], "stops": sc["stops"], "reinstates": sc["reinstates"], "id": scen_id})
    return out


def interesting(w):
    names = [s["a"] for s in w]
    return (2 if "MLock" in names else 0) + (1 if "MTrigger" in names else 0) + (1 if "MRecv" in names else 0)


def graph_roots(path):
    roots = []
    with open(path) as f:
        for line in f:
            if "style = filled]" in line and " -> " not in line[:48]:
                roots.append(line.split(" ", 1)[0])
    return roots


def select_walks(rng, rundir, per_root, full, tag):
    """edge-cover walks per scenario (= per initial state of the dumped graph), the ones that reach a decision preferred"""
    path = os.path.join(rundir, "graph.dot")
    g = tlagraph.Graph.load(path)
    beh, info = [], []
    for i, r in enumerate(sorted(set(graph_roots(path)))):
        g.root = r
        sc = tla_value(g.state(r)["sc"])
        walks, left = g.edge_cover(rng, max_len=80, max_walks=None if full else per_root * 12)
        if full and left:
            raise vlib.Infra("edge cover incomplete (%s)" % tag)
        hot = [w for w in walks if interesting(w) >= 2]
        sel = vlib.sample(rng, hot, per_root * 2 // 3)
        chosen = set(id(w) for w in sel)
        sel += vlib.sample(rng, [w for w in walks if id(w) not in chosen], per_root - len(sel))
        beh += c12_behaviours(g, sel, sc, i)
        info.append("%s/%s%s: %d of %d walks" % (sc["strategy"], "+".join(sc["msgs"] + sc["ctls"]), "+stop" * sc["stops"] + "+reinstate" * sc["reinstates"],
                                                  len(sel), len(walks)))
    return beh, info, g.nedges


def run_c12(ctx):
    pid = "C12"
    quick = ctx.quick
    exe = ctx.build("passivation")
    pool = concurrent.futures.ThreadPoolExecutor(max_workers=32)
    tot = collections.Counter()
    samples = []
    known_hits = collections.Counter()
    tiers = ["quick"] if quick else ["quick", "thorough"]

    # ---- design level: the repaired design satisfies every clause; each recorded defect alone violates its clause
    holds = [pool.submit(tlc, ctx, True, SPEC, "MC_%s.cfg" % t, module="MC_Passivate", timeout=3000, workers=4) for t in tiers]
    holds += [pool.submit(tlc, ctx, True, SPEC, c, module="MC_Passivate", timeout=3000, workers=2)
              for c in (["MC_live_susp.cfg"] if quick else ["MC_live_susp.cfg", "MC_live.cfg"])]      # the manager always returns to its run loop
    exhibits = {d: pool.submit(tlc, ctx, False, SPEC, "MC_asis_%s.cfg" % c, module="MC_Passivate", timeout=900, workers=1, expect_fail=True)
                for d, c in (("NoRecheck", "norecheck"), ("StaleTurnClock", "stale"), ("StaleCountTrigger", "counttrigger"),
                             ("HotRearm", "hotrearm"), ("DoublePush", "doublepush"))}
    # ---- the state graphs of the model of the tree under test (and of the tree before the tryPassivation fix: regression witnesses)
    dumps = {t: pool.submit(tlc, ctx, False, SPEC, "Dump_%s.cfg" % t, module="MC_Passivate", timeout=3000, workers=4, dump_dot=True)
             for t in tiers + ["prefix"]}

    # ---- spec -> code
    def lane(label, beh):
        bfile = ctx.tmp("beh-%s.ndjson" % label)
        ev = ctx.tmp("ev-%s.ndjson" % label)
        conf = ctx.tmp("conf-%s.ndjson" % label)
        vlib.write_ndjson(bfile, beh)
        p = ctx.run([exe, "replay", bfile, ev, conf, str(TICK_MS), str(SLACK_MS)], timeout=3000)
        return json.loads(p.stdout.strip().splitlines()[-1]), ev, conf

    def replay(tag):
        d = dumps[tag].result()
        per_root = {"quick": 30 if quick else 150, "thorough": 250, "prefix": 12 if quick else 60}[tag]
        rng = random.Random("%s-%s" % (ctx.seed, tag))       # replays run in threads: one generator each
        beh, info, nedges = select_walks(rng, d.rundir, per_root, not quick, tag)
        rng.shuffle(beh)
        samples.append({tag + "_walk": [[s["a"]] + s["args"] for s in beh[0]["steps"]][:40]})
        lanes = max(1, min(10, len(beh) // 12))
        futs = [pool.submit(lane, "%s-%d" % (tag, i), beh[i::lanes]) for i in range(lanes)]
        return tag, len(beh), nedges, info, [f.result() for f in futs]

    rfuts = [pool.submit(replay, t) for t in dumps]

    # ---- free-running actors
    def stress(mode):
        t = ctx.tmp("stress-%d.ndjson" % mode)
        n = 40 if quick else 300
        p = ctx.run([exe, "stress", str(n), "400", str(SLACK_MS), str(ctx.seed * 10 + mode), t, str(mode)], timeout=1800)
        return json.loads(p.stdout.strip().splitlines()[-1]), t

    sfuts = [pool.submit(stress, m) for m in (0, 1, 2)]

    # ---- fixed witness walks (schedules outside the bounded model: Restart while a count trigger is in flight)
    def witness():
        t = ctx.tmp("witness.ndjson")
        p = ctx.run([exe, "witness", t, str(SLACK_MS)], timeout=600)
        return json.loads(p.stdout.strip().splitlines()[-1]), t

    sfuts.append(pool.submit(witness))

    for f in holds:
        f.result()
    for d, f in exhibits.items():
        if f.result().violated is None:
            raise vlib.Infra("Passivate.tla with Defects={%s} no longer violates its clause (spec changed / stale finding?)" % d)

    ev_files, conf_files = [], []
    for f in rfuts:
        tag, nbeh, nedges, info, res = f.result()
        agg = collections.Counter()
        drift_at = collections.Counter()
        for rs, ev, conf in res:
            for k in ("behaviours", "steps", "drift", "time_drift", "watchdog"):
                agg[k] += rs[k]
            for k, v in (rs.get("drift_at") or {}).items():
                drift_at[k] += v
            ev_files.append(ev)
            if tag != "prefix":
                conf_files.append(conf)
        tot["walks"] += agg["behaviours"]
        tot["steps"] += agg["steps"]
        tot["hist"] += agg["behaviours"]
        if tag == "prefix":
            tot["prefix_walks"] += agg["behaviours"]
            tot["prefix_drift"] += agg["drift"]
        else:
            tot["drift"] += agg["drift"]
        ctx.log("replay %s: %d walks (%d edges in the graph; %s), %d steps, drift %d (time %d, watchdog %d) %s" %
                (tag, nbeh, nedges, "; ".join(info), agg["steps"], agg["drift"], agg["time_drift"], agg["watchdog"], dict(drift_at.most_common(4))))
    for f in sfuts:
        rs, t = f.result()
        tot["hist"] += rs["behaviours"]
        tot["stress"] += rs["behaviours"]
        ev_files.append(t)

    def cat(name, files):
        out = ctx.tmp(name)
        with open(out, "w") as o:
            for p in files:
                with open(p) as f:
                    o.write(f.read())
        return out

    allev = cat("events.ndjson", ev_files)
    allconf = cat("conf.ndjson", conf_files)
    # ---- code -> spec (a) the monitor decides; (b) conformance (drift only)
    fmon = pool.submit(monitor, ctx, SPEC, "PassMonitor", allev, "c12")
    fconf = pool.submit(tlc, ctx, False, SPEC, "Trace_Passivate.cfg", module="Trace_Passivate", dfs=True, timeout=3000, heap="4g",
                        name="conf", files={"conf.ndjson": allconf})
    mm, nl = fmon.result()
    tot["events"] = nl
    rows = vlib.read_ndjson(allev)
    tot["decisions"] = sum(1 for r in rows if r["ev"] == "decision")
    rc = fconf.result()
    nconf = sum(1 for _ in open(allconf))
    dr = vlib.tuples(rc.out, "DRIFT")
    tot["conf_lines"] = rc.depth - 1
    tot["conf_drift"] = len(dr) + (1 if rc.depth - 1 != nconf else 0)
    if tot["conf_drift"]:
        ctx.log("conformance: %d/%d lines, drift at %s" % (rc.depth - 1, nconf, collections.Counter(d[1] for d in dr).most_common(6)))

    def finish(violations=0):
        st, tr = ctx.states()
        cov = {"states": st, "transitions": tr, "traces_validated_against_impl": tot["hist"], "samples": samples[:4],
               "evaluations": tot["hist"], "distinct_nontrivial": tot["walks"],
               "rule": "executions = puppet replays of edge-cover walks of the Passivate.tla state graphs (time / pause-resume / "
                       "suspend-reinstate / count / count+re-register / long-lived scenarios; model of the tree under test and of the "
                       "tree before the tryPassivation fix) on a real actor system + free-running actors with traffic timed around the "
                       "deadline; distinct_nontrivial = distinct walks replayed (each interleaves the manager, a worker and a harness thread)",
               "atomic_steps_replayed": tot["steps"], "replay_drift": tot["drift"], "prefix_walks": tot["prefix_walks"],
               "prefix_walks_drifted": tot["prefix_drift"], "events_judged": tot["events"],
               "passivation_decisions_judged": tot["decisions"], "free_running_actors": tot["stress"],
               "conformance_lines": tot["conf_lines"], "conformance_drift": tot["conf_drift"],
               "known_finding_hits": dict(known_hits), "tick_ms": TICK_MS, "slack_ms": SLACK_MS, "exhaustive": False}
        ctx.evidence("model_checking", cov,
                     ["one actor, default mailbox, default throughput budget (32); one tick = %d ms real time, T = 3 ticks" % TICK_MS,
                      "handler entry time = wall clock taken at the first statement of Receive; slack = 100 ms documented Touch "
                      "coalescing + 100 ms scheduling noise",
                      "the model lets no time pass between the stamp of a message and the entry into the user's handler",
                      "restart, children, cluster relocation and system shutdown are not driven here"], violations=violations)

    mine = []
    kinds = collections.Counter()
    for m in mm:
        hist, at = history_of(rows, m[1])
        slack = next(r["b"] for r in hist if r["ev"] == "New")
        fid = classify_c12(hist, at, m[2], slack)
        kinds[(m[2], fid)] += 1
        k = ctx.is_known(fid) if fid else None
        if k:
            known_hits[fid] += 1
            ctx.report_known(fid, k["what"])
        else:
            mine.append((m, hist))
    ctx.log("monitor: %d events, %d passivation decisions, mismatches %d %s" % (nl, tot["decisions"], len(mm), dict(kinds)))
    if tot["decisions"] < 5:
        raise vlib.Infra("only %d passivation decisions were observed (replays drifted?)" % tot["decisions"])
    if mine:
        m, hist = mine[0]
        snippet = ctx.tmp("violation.ndjson")
        vlib.write_ndjson(snippet, hist)
        rp = ctx.save_replay("seed%d" % ctx.seed, snippet)
        finish(violations=len(mine))
        raise vlib.Violation(pid, rp, "%s (trace line %d; %d unexplained mismatches)" % (m[2], m[1], len(mine)))
    pool.shutdown()
    finish()


# ---------------------------------------------------------------- C31
GSPEC = "Grain"
GRAIN_AFTER_MS = 200        # deactivateAfter of the first activation in the replays (later activations get goakt's 2 min default)
G_REAL_DEFECTS = ["OffTurnDeactivate", "DeliverAfterDeactivate"]

# monitor failure text -> the recorded finding whose witness it is (the witness itself is checked in classify_c31)
G_OVERLAP_D = "OnDeactivate started while OnReceive was running"
G_OVERLAP_R = "OnReceive started while OnDeactivate was running"
G_AFTER = "OnReceive after OnDeactivate of its activation"
G_TWICE = "OnDeactivate ran twice for one activation"
G_GONE = "message sent after the deactivation was delivered to the deactivated instance"


def classify_c31(hist, at, what):
    """A grain deactivation is 'off turn' when OnDeactivate ran inside passivationTry (ptry .. ptryend on the same goroutine)."""
    row = hist[at]

    def off_turn(de):        # de = a deenter row
        i = hist.index(de)
        g = de["g"]
        opened = False
        for r in hist[:i]:
            if r["g"] == g and r["ev"] == "ptry":
                opened = True
            elif r["g"] == g and r["ev"] == "ptryend":
                opened = False
        return opened

    des = [r for r in hist[:at + 1] if r["ev"] == "deenter" and r["inst"] == row["inst"]]
    if what in (G_OVERLAP_D, G_OVERLAP_R, G_TWICE):
        return "OffTurnDeactivate" if any(off_turn(d) for d in des) else None
    if what in (G_AFTER, G_GONE):
        if any(off_turn(d) for d in des):
            return "OffTurnDeactivate"
        return "DeliverAfterDeactivate" if des else None      # deactivated on its turn (PoisonPill), queued messages still delivered
    return None


def c31_behaviours(g, walks, sc, scen_id):
    out = []
    for w in walks:
        steps = []
        for s in w:
            stt = g.state(s["to"])
            exp = {"spc": tla_value(stt["spc"]), "tpc": tla_value(stt["tpc"]), "mpc": tla_value(stt["mpc"]), "zpc": tla_value(stt["zpc"]),
                   "nturn": int(stt["nturn"])}
            steps.append({"a": s["a"], "args": s["args"], "exp": exp})
        out.append({"steps": steps, "plan": sc["plan"], "rank": {"s1": 1, "s2": 2}, "passivates": sc["passivates"],
                    "shutdowns": sc["shutdowns"], "id": scen_id})
    return out


def run_c31(ctx):
    pid = "C31"
    quick = ctx.quick
    exe = ctx.build("passivation")
    pool = concurrent.futures.ThreadPoolExecutor(max_workers=24)
    tot = collections.Counter()
    samples = []
    known_hits = collections.Counter()
    tiers = ["quick"] if quick else ["quick", "thorough"]

    holds = [pool.submit(tlc, ctx, True, GSPEC, "MC_%s.cfg" % t, module="MC_Lifecycle", timeout=3000, workers=2) for t in tiers]
    exhibits = {d: pool.submit(tlc, ctx, False, GSPEC, "MC_asis_%s.cfg" % c, module="MC_Lifecycle", timeout=900, workers=1, expect_fail=True)
                for d, c in (("OffTurnDeactivate", "offturn"), ("DeliverAfterDeactivate", "deliverafter"))}
    dumps = {t: pool.submit(tlc, ctx, False, GSPEC, "Dump_%s.cfg" % t, module="MC_Lifecycle", timeout=3000, workers=2, dump_dot=True) for t in tiers}

    def lane(label, beh):
        bfile = ctx.tmp("gbeh-%s.ndjson" % label)
        ev = ctx.tmp("gev-%s.ndjson" % label)
        conf = ctx.tmp("gconf-%s.ndjson" % label)
        vlib.write_ndjson(bfile, beh)
        p = ctx.run([exe, "grain-replay", bfile, ev, conf, str(GRAIN_AFTER_MS)], timeout=3000)
        return json.loads(p.stdout.strip().splitlines()[-1]), ev, conf

    def replay(tag):
        d = dumps[tag].result()
        path = os.path.join(d.rundir, "graph.dot")
        g = tlagraph.Graph.load(path)
        rng = random.Random("%s-%s" % (ctx.seed, tag))
        per_root = {"quick": 70 if quick else 500, "thorough": 1000}[tag]
        beh, info = [], []
        for i, r in enumerate(sorted(set(graph_roots(path)))):
            g.root = r
            sc = tla_value(g.state(r)["sc"])
            walks, left = g.edge_cover(rng, max_len=100)
            if left:
                raise vlib.Infra("edge cover incomplete (%s)" % tag)
            sel = vlib.sample(rng, walks, per_root)
            beh += c31_behaviours(g, sel, sc, i)
            info.append("%s|%s pass=%d shut=%d: %d of %d walks" % ("+".join(sc["plan"]["s1"]), "+".join(sc["plan"]["s2"]), sc["passivates"],
                                                                   sc["shutdowns"], len(sel), len(walks)))
        rng.shuffle(beh)
        samples.append({tag + "_walk": [[s["a"]] + s["args"] for s in beh[0]["steps"]][:40]})
        lanes = max(1, min(10, len(beh) // 20))
        futs = [pool.submit(lane, "%s-%d" % (tag, i), beh[i::lanes]) for i in range(lanes)]
        return tag, len(beh), g.nedges, info, [f.result() for f in futs]

    rfuts = [pool.submit(replay, t) for t in dumps]

    def stress(k):
        t = ctx.tmp("gstress-%d.ndjson" % k)
        n = 30 if quick else 200
        p = ctx.run([exe, "grain-stress", str(n), "60", str(ctx.seed * 10 + k), t], timeout=1800)
        return json.loads(p.stdout.strip().splitlines()[-1]), t

    sfuts = [pool.submit(stress, k) for k in ((0, 1) if quick else (0, 1, 2, 3))]

    for f in holds:
        f.result()
    for d, f in exhibits.items():
        if f.result().violated is None:
            raise vlib.Infra("Lifecycle.tla with Defects={%s} no longer violates its clause (spec changed / stale finding?)" % d)

    ev_files, conf_files = [], []
    for f in rfuts:
        tag, nbeh, nedges, info, res = f.result()
        agg = collections.Counter()
        drift_at = collections.Counter()
        for rs, ev, conf in res:
            for k in ("behaviours", "steps", "drift", "watchdog"):
                agg[k] += rs[k]
            for k, v in (rs.get("drift_at") or {}).items():
                drift_at[k] += v
            ev_files.append(ev)
            conf_files.append(conf)
        tot["walks"] += agg["behaviours"]
        tot["steps"] += agg["steps"]
        tot["hist"] += agg["behaviours"]
        tot["drift"] += agg["drift"]
        ctx.log("replay %s: %d walks (%d edges in the graph; %s), %d steps, drift %d (watchdog %d) %s" %
                (tag, nbeh, nedges, "; ".join(info), agg["steps"], agg["drift"], agg["watchdog"], dict(drift_at.most_common(4))))
    for f in sfuts:
        rs, t = f.result()
        tot["hist"] += rs["behaviours"]
        tot["stress"] += rs["behaviours"]
        ev_files.append(t)

    def cat(name, files):
        out = ctx.tmp(name)
        with open(out, "w") as o:
            for p in files:
                with open(p) as f:
                    o.write(f.read())
        return out

    allev = cat("gevents.ndjson", ev_files)
    allconf = cat("gconf.ndjson", conf_files)
    fmon = pool.submit(monitor, ctx, GSPEC, "GrainMonitor", allev, "c31")
    fconf = pool.submit(tlc, ctx, False, GSPEC, "Trace_Lifecycle.cfg", module="Trace_Lifecycle", dfs=True, timeout=3000, heap="4g",
                        name="gconf", files={"conf.ndjson": allconf})
    mm, nl = fmon.result()
    tot["events"] = nl
    rows = vlib.read_ndjson(allev)
    tot["deactivations"] = sum(1 for r in rows if r["ev"] == "deenter")
    tot["activations"] = sum(1 for r in rows if r["ev"] == "actenter")
    rc = fconf.result()
    nconf = sum(1 for _ in open(allconf))
    dr = vlib.tuples(rc.out, "DRIFT")
    tot["conf_lines"] = rc.depth - 1
    tot["conf_drift"] = len(dr) + (1 if rc.depth - 1 != nconf else 0)
    if tot["conf_drift"]:
        ctx.log("conformance: %d/%d lines, drift at %s" % (rc.depth - 1, nconf, collections.Counter(d[1] for d in dr).most_common(6)))

    def finish(violations=0):
        st, tr = ctx.states()
        cov = {"states": st, "transitions": tr, "traces_validated_against_impl": tot["hist"], "samples": samples[:4],
               "evaluations": tot["hist"], "distinct_nontrivial": tot["walks"],
               "rule": "executions = puppet replays of edge-cover walks of the Lifecycle.tla state graphs (traffic vs idle deadline, explicit "
                       "PoisonPill vs traffic, PoisonPill vs passivation, system shutdown) on a real actor system with an instrumented grain "
                       "+ free-running grains with sends / long handlers / PoisonPills timed around a 60 ms deactivateAfter; "
                       "distinct_nontrivial = distinct walks replayed",
               "atomic_steps_replayed": tot["steps"], "replay_drift": tot["drift"], "events_judged": tot["events"],
               "activations_judged": tot["activations"], "deactivations_judged": tot["deactivations"], "free_running_grains": tot["stress"],
               "conformance_lines": tot["conf_lines"], "conformance_drift": tot["conf_drift"],
               "known_finding_hits": dict(known_hits), "exhaustive": False}
        ctx.evidence("model_checking", cov,
                     ["one grain identity on one node (no cluster), grain without reentrancy, default (unbounded) grain mailbox",
                      "the recorded [renter, rexit] / [deenter, deexit] intervals lie inside the real callback executions, so a reported overlap is real",
                      "only the first activation has a short deactivateAfter (goakt re-activates with its 2 min default)"], violations=violations)

    mine = []
    kinds = collections.Counter()
    for m in mm:
        hist, at = history_of(rows, m[1])
        fid = classify_c31(hist, at, m[2])
        kinds[(m[2], fid)] += 1
        k = ctx.is_known(fid) if fid else None
        if k:
            known_hits[fid] += 1
            ctx.report_known(fid, k["what"])
        else:
            mine.append((m, hist))
    ctx.log("monitor: %d events, %d activations, %d deactivations, mismatches %d %s" % (nl, tot["activations"], tot["deactivations"], len(mm), dict(kinds)))
    if tot["deactivations"] < 5:
        raise vlib.Infra("only %d deactivations were observed (replays drifted?)" % tot["deactivations"])
    if mine:
        m, hist = mine[0]
        snippet = ctx.tmp("violation.ndjson")
        vlib.write_ndjson(snippet, hist)
        rp = ctx.save_replay("seed%d" % ctx.seed, snippet)
        finish(violations=len(mine))
        raise vlib.Violation(pid, rp, "%s (trace line %d; %d unexplained mismatches)" % (m[2], m[1], len(mine)))
    pool.shutdown()
    finish()


def run(ctx, pid):
    if pid == "C12":
        return run_c12(ctx)
    return run_c31(ctx)
