"""clusterops: C35 (relocation handoff masking respects caller deadlines), C19 (scheduler), C33 (relocation run).

All three need an actor system that believes it is a cluster member: the real internal/cluster engine runs over a
fake olric map/client (harness/cmd/clusterops/fake.go), see docs/clusterops.md.

C35  spec -> code: TLC enumerates the environments of one name-based send (API, caller timeout, mask expiry, the
     registry's answer at every resolution, delivery behaviour) from specs/Relocation/Handoff.tla; each is executed
     through the REAL PID.SendSync / PID.SendAsync (deliverAcrossHandoff / deliverBypassingHandoff /
     sleepWithinHandoff) in real time.   code -> spec: the recorded trace (hook values: start, attempt deadlines,
     backoff, requested sleeps, remaining; context deadline seen by the delivery; result class; timestamps) is judged
     by TLC twice: Trace_HandoffMon (the property monitor, decides) and Trace_Handoff (conformance with Handoff.tla).
"""
import json, os, collections
from concurrent.futures import ThreadPoolExecutor
import vlib

PROPERTIES = ["C35", "C19", "C33"]


def _mismatches(mon):
    mism = vlib.tuples(mon.out, "MISMATCH")
    if len(mism) != mon.out.count('"MISMATCH"'):
        raise vlib.Infra("unparsed MISMATCH lines in monitor output")
    return mism


def _cut(rows, line):
    """rows of the behaviour (New .. before next New) that contains 1-based trace line `line`."""
    i = line - 1
    s = max(j for j in range(i + 1) if rows[j].get("op") == "New")
    e = next((j for j in range(i + 1, len(rows)) if rows[j].get("op") == "New"), len(rows))
    return rows[s:e]


# ------------------------------------------------------------------------------------------------ C35
def _gen_handoff(ctx, cfg, simulate=None, depth=None, seed=None):
    r = ctx.tlc("Relocation", cfg, module="Gen_Handoff", simulate=simulate, depth=depth, deadlock_check=False,
                timeout=900, workers=1 if simulate else 2, seed=seed, name=cfg[:-4] + ("-sim" if simulate else ""))
    return vlib.parse_sim_behaviours(r.out)


def _build(ctx):
    """ctx.build("clusterops"), skipped when an identical build exists: the key covers the harness sources and the exact state of the
    tree under test (HEAD, diff, untracked files), so a mutated worktree always rebuilds.  Linking alone takes 1-2 min on the loaded box."""
    import hashlib, subprocess, glob, shutil
    h = hashlib.sha1()
    repo = vlib.REPO
    try:
        for cmd in (["git", "-C", repo, "rev-parse", "HEAD"], ["git", "-C", repo, "diff", "HEAD"], ["git", "-C", repo, "ls-files", "-o", "--exclude-standard"]):
            out = subprocess.run(cmd, stdout=subprocess.PIPE, stderr=subprocess.DEVNULL, timeout=120, check=True).stdout
            h.update(out)
            if cmd[3] == "ls-files":
                for f in out.decode().split():
                    with open(os.path.join(repo, f), "rb") as fh:
                        h.update(fh.read())
    except Exception:
        return ctx.build("clusterops")
    hdir = os.path.join(vlib.VERIF, "harness")
    for f in sorted(glob.glob(os.path.join(hdir, "cmd", "clusterops", "*.go")) + glob.glob(os.path.join(hdir, "sched", "*.go"))
                    + glob.glob(os.path.join(hdir, "vtrace", "*.go")) + [os.path.join(hdir, "go.mod"), os.path.join(hdir, "go.sum")]):
        with open(f, "rb") as fh:
            h.update(f.encode() + fh.read())
    bindir = os.path.join(vlib.VERIF, ".bin")
    cached = os.path.join(bindir, "clusterops-cache-" + h.hexdigest()[:16])
    if os.path.exists(cached):
        ctx.log("harness binary unchanged (cached build)")
        return cached
    exe = ctx.build("clusterops")
    old = sorted(glob.glob(os.path.join(bindir, "clusterops-cache-*")), key=os.path.getmtime)
    for f in old[:-5]:
        try:
            os.remove(f)
        except OSError:
            pass
    tmp = cached + ".tmp%d" % os.getpid()
    shutil.copy(exe, tmp)
    os.replace(tmp, cached)
    return cached


def _parallel(jobs, width=3):
    """run thunks side by side (TLC start-up dominates small runs); results in order, first exception re-raised."""
    with ThreadPoolExecutor(max_workers=width) as ex:
        futs = [ex.submit(j) for j in jobs]
        return [f.result() for f in futs]


def run_c35(ctx, pid):
    quick = ctx.quick
    # 1. design: the transcription keeps every call within the caller's budget, for every environment of the bounded model
    # 2. behaviours (environments of one call) from TLC            (and the harness build, all side by side)
    if quick:
        mcjobs = [lambda: ctx.tlc_must_hold("Relocation", "MC_Handoff.cfg", module="MC_Handoff", timeout=600, workers=2),
                  lambda: ctx.tlc_must_hold("Relocation", "MC_Handoff_j0.cfg", module="MC_Handoff", timeout=600, workers=2)]
    else:
        mcjobs = [lambda: ctx.tlc_must_hold("Relocation", "MC_Handoff_t.cfg", module="MC_Handoff", timeout=1800, workers=4),
                  lambda: ctx.tlc_must_hold("Relocation", "MC_Handoff_t2.cfg", module="MC_Handoff", timeout=2400, workers=4),
                  lambda: ctx.tlc_must_hold("Relocation", "MC_Handoff_j0.cfg", module="MC_Handoff", timeout=600, workers=2)]
    genjobs = [lambda: _gen_handoff(ctx, "Gen_Handoff.cfg" if quick else "Gen_Handoff_t.cfg"),
               lambda: _gen_handoff(ctx, "Gen_Handoff_long.cfg"),
               lambda: _gen_handoff(ctx, "Sim_Handoff.cfg", simulate="num=%d" % (300 if quick else 3000), depth=100)]
    res = _parallel([lambda: _build(ctx)] + mcjobs + genjobs, width=4 if quick else 3)
    exe, mcs, (exh, lng, sim) = res[0], res[1:1 + len(mcjobs)], res[1 + len(mcjobs):]
    ctx.log("design: %s distinct states, budget / async / retryable invariants hold" % "+".join(str(m.distinct) for m in mcs))
    if len(exh) < 1000 or len(lng) < 100 or len(sim) < 50:
        raise vlib.Infra("behaviour generation produced too little (%d/%d/%d)" % (len(exh), len(lng), len(sim)))
    seen, behaviours = set(), []
    for b in exh + lng + sim:
        k = json.dumps(b, sort_keys=True)
        if k not in seen:
            seen.add(k)
            behaviours.append(b)
    # the model's timeouts lie on the 50 ms grid; move half of them off the grid (the monitor is exact in microseconds)
    for b in behaviours:
        b["offUs"] = ctx.rng.randrange(0, 50) * 1000 if (b["maxWait"] > 0 and ctx.rng.random() < 0.5) else 0
    if not quick:
        cap = 9000
        if len(behaviours) > cap:
            behaviours = vlib.sample(ctx.rng, behaviours, cap)
    bfile = ctx.tmp("handoff-behaviours.ndjson")
    vlib.write_ndjson(bfile, behaviours)
    ctx.log("behaviours: %d (exhaustive %d, long %d, random %d before dedup)" % (len(behaviours), len(exh), len(lng), len(sim)))

    # 3. execute on the real SendSync / SendAsync
    trace = ctx.tmp("handoff-trace.ndjson")
    p = ctx.run([exe, "handoff", bfile, trace], timeout=900)
    stats = json.loads(p.stdout.strip().splitlines()[-1])
    nlines = stats["events"]
    rows = vlib.read_ndjson(trace)

    # 4a. property monitor   4b. conformance
    mon, conf = _parallel([
        lambda: ctx.tlc("Relocation", "Trace_HandoffMon.cfg", dfs=True, files={"trace.ndjson": trace}, timeout=1500, heap="8g"),
        lambda: ctx.tlc("Relocation", "Trace_Handoff.cfg", dfs=True, files={"trace.ndjson": trace}, timeout=1500, heap="8g", expect_fail=True)])
    if mon.depth != nlines + 1:
        raise vlib.Infra("monitor did not consume the whole trace (%d of %d)" % (mon.depth - 1, nlines))
    mism = _mismatches(mon)
    drift = None
    if conf.violated or conf.error:
        drift = "conformance spec failed: %s" % (conf.violated or conf.error[:200])
    elif conf.depth != nlines + 1:
        drift = "trace rejected at line %d of %d: %s" % (conf.depth, nlines, json.dumps(rows[conf.depth - 1])[:200])

    classes = collections.Counter(r["cls"] for r in rows if r.get("op") == "Return")
    agree = 0
    cur = None
    for r in rows:
        if r.get("op") == "New":
            cur = r
        elif r.get("op") == "Return" and cur is not None and cur["pred"] == r["cls"]:
            agree += 1
    nontrivial = len({json.dumps([b["mode"], b["maxWait"], b["maskExp"], b["outs"], b["dlv"]]) for b in behaviours
                      if b["mode"] == "sync" and b["maskExp"] > 0 and len(b["outs"]) >= 2})
    cov = {
        "states": ctx.states()[0], "transitions": ctx.states()[1],
        "traces_validated_against_impl": len(behaviours),
        "samples": [[b["mode"], b["maxWait"], b["maskExp"], b["outs"], b["dlv"]] for b in (behaviours[0], behaviours[len(behaviours) // 2], behaviours[-1])],
        "evaluations": len(behaviours), "distinct_nontrivial": nontrivial,
        "rule": "environments of one name-based send: API x caller timeout (ticks of 50 ms, half moved off the grid) x mask expiry x "
                "registry answer per resolution x delivery behaviour; every complete call of the bounded model (TLC BFS) plus "
                "long calls and TLC random walks; non-trivial = synchronous, a relocation in flight, at least one masked retry",
        "exhaustive": True, "events_validated": nlines, "result_classes": dict(classes),
        "agree_with_exact_timing_prediction": agree, "scheduling_jitter_us": stats["jitter_us"],
        "wall_clock_judged": stats["jitter_us"] < 50000,
        "conformance_drift": drift, "monitor_mismatches": len(mism),
    }
    assumptions = ["real time: the calls run concurrently against the wall clock; the verdict rests on exact integer checks of the values the "
                   "code computed (start, attempt deadlines, requested sleeps, delivery context deadline) and on lateness not "
                   "accumulating; the absolute wall-clock bound (max(100 ms, 20 %) + 3 x measured jitter) is judged only when the "
                   "measured scheduling jitter is below 50 ms",
                   "registry answers are scripted in a fake olric map under goakt's real cluster engine; the remote hop of the final "
                   "delivery is a stub remoting client that honours its context; a registry read is assumed to return promptly",
                   "exhaustive only within the bounds of the TLC configurations (timeouts <= 16 ticks exhaustively, longer ones sampled)"]
    cov["unclassified_errors"] = stats.get("other_errors", 0)
    if mism:
        line = int(mism[0][0])
        snippet = ctx.tmp("violation.ndjson")
        vlib.write_ndjson(snippet, _cut(rows, line))
        rp = ctx.save_replay("seed%d" % ctx.seed, snippet)
        ctx.evidence("model_checking", cov, assumptions, violations=len(mism))
        codes = collections.Counter(m[2] for m in mism)
        raise vlib.Violation(pid, rp, "monitor: %s (call %s, trace line %s, values %s / %s; %d mismatches: %s)"
                             % (mism[0][2], mism[0][1], mism[0][0], mism[0][3], mism[0][4], len(mism), dict(codes)))
    if drift:
        ctx.log("conformance drift (not a verdict): " + drift)
    ctx.evidence("model_checking", cov, assumptions)


# ------------------------------------------------------------------------------------------------ C19
def _gen(ctx, spec_dir, cfg, module, simulate=None, depth=None, timeout=900):
    r = ctx.tlc(spec_dir, cfg, module=module, simulate=simulate, depth=depth, deadlock_check=False, timeout=timeout,
                workers=1 if simulate else 2, name=cfg[:-4] + ("-sim" if simulate else ""))
    return vlib.parse_sim_behaviours(r.out)


def _opkey(b):
    return json.dumps([[o["op"], o["ref"], o["arg"]] for o in b])


def _longstall_run(ctx, exe):
    """the schedule Claim.tla excludes by its NoLongStall assumption, in real time (about one claim TTL = 60 s)."""
    try:
        trace = ctx.tmp("longstall-trace.ndjson")
        p = ctx.run([exe, "sched-longstall", trace], timeout=400)
        return (trace, json.loads(p.stdout.strip().splitlines()[-1]))
    except Exception as e:        # re-raised by the caller on the main thread
        return e


def _longstall_judge(ctx, trace, stats):
    rows = vlib.read_ndjson(trace)
    mon = ctx.tlc("Scheduler", "Trace_ClaimMon.cfg", dfs=True, files={"trace.ndjson": trace}, timeout=600, name="Trace_ClaimMon-longstall")
    if mon.depth != len(rows) + 1:
        raise vlib.Infra("monitor did not consume the long-stall trace")
    mism = _mismatches(mon)
    conf = ctx.tlc("Scheduler", "Trace_Claim_longstall.cfg", module="Trace_Claim", dfs=True, files={"trace.ndjson": trace}, timeout=600, expect_fail=True)
    ops = [(r.get("op"), r.get("n"), r.get("r")) for r in rows]
    # witness of the recorded finding: n2 checked fresh, the claim expired while n2 was before its claim, n2 won
    witness = ("Check", "n2", "fresh") in ops and ("Expire", "", None) in ops and ("Claim", "n2", "won") in ops \
        and ops.index(("Check", "n2", "fresh")) < ops.index(("Expire", "", None)) < ops.index(("Claim", "n2", "won"))
    return {"double": any(m[2] == "tick-delivered-twice" for m in mism), "witness": witness, "outcome": stats["outcome"], "wall_s": stats["wall_s"],
            "accepted_by_Claim_with_LongStall": conf.depth == len(rows) + 1 and not conf.violated and not conf.error}


def run_c19(ctx, pid):
    quick = ctx.quick
    S = "Scheduler"
    jobs = [lambda: _build(ctx),
            lambda: ctx.tlc_must_hold(S, "MC_Sched.cfg" if quick else "MC_Sched_t2.cfg", module="MC_Sched", deadlock_check=False, timeout=2400, workers=2 if quick else 4),
            lambda: ctx.tlc_must_hold(S, "MC_Claim.cfg" if quick else "MC_Claim_t.cfg", module="MC_Claim", deadlock_check=False, timeout=2400, workers=2 if quick else 4),
            lambda: _gen(ctx, S, "Gen_Claim.cfg", "Gen_Claim"),
            lambda: _gen(ctx, S, "Sim_Claim.cfg", "Gen_Claim", simulate="num=%d" % (150 if quick else 1500), depth=80),
            lambda: _gen(ctx, S, "Gen_Sched.cfg" if quick else "Gen_Sched_t.cfg", "Gen_Sched", timeout=1800)]
    if not quick:
        # the design with the recorded defect switched on must exhibit it (keeps the Defects branch honest)
        jobs.append(lambda: ctx.tlc(S, "MC_Sched_defect.cfg", module="MC_Sched", deadlock_check=False, timeout=1800, workers=4, expect_fail=True))
    res = _parallel(jobs, width=4 if quick else 3)
    exe, mc_s, mc_c, cexh, csim, sall = res[:6]
    if not quick and res[6].violated != "NoLoss":
        raise vlib.Infra("Sched.tla with Defects={OnceResumeLost} should violate NoLoss, got %s" % res[6].violated)
    ctx.log("design: Sched %d, Claim %d distinct states; invariants hold" % (mc_s.distinct, mc_c.distinct))
    if len(cexh) < 100 or len(csim) < 50 or len(sall) < 1000:
        raise vlib.Infra("behaviour generation produced too little (%d/%d/%d)" % (len(cexh), len(csim), len(sall)))
    # claim race behaviours: every interleaving of 2 nodes x 1 tick (incl. stale nodes, registry faults, expiry) + random 3 x 2
    seen, cbeh = set(), []
    for b in cexh + csim:
        k = json.dumps(b)
        if k not in seen:
            seen.add(k)
            cbeh.append(b)
    if quick and len(cbeh) > len(cexh) + 150:
        cbeh = cbeh[:len(cexh)] + vlib.sample(ctx.rng, cbeh[len(cexh):], 150)
    # operation sequences: distinct sequences of length D; quick samples them (seeded), favouring sequences that schedule something
    seen, sbeh = set(), []
    for b in sall:
        k = _opkey(b)
        if k not in seen:
            seen.add(k)
            sbeh.append(b)
    nseq = len(sbeh)
    rich = [b for b in sbeh if any(o["op"] in ("Once", "Every") for o in b) and sum(o["ref"] == "g" for o in b) == 0]
    rest = [b for b in sbeh if b not in rich] if len(sbeh) < 5000 else [b for b in sbeh if not (any(o["op"] in ("Once", "Every") for o in b) and sum(o["ref"] == "g" for o in b) == 0)]
    sbeh = vlib.sample(ctx.rng, rich, 600 if quick else 6000) + vlib.sample(ctx.rng, rest, 100 if quick else 1000)
    cfile, sfile = ctx.tmp("claim-behaviours.ndjson"), ctx.tmp("sched-behaviours.ndjson")
    lsbox = {}
    if not quick or os.environ.get("VERIF_LONGSTALL") == "1":
        # the one-minute real-time scenario runs next to everything else
        import threading
        lsthread = threading.Thread(target=lambda: lsbox.update(r=_longstall_run(ctx, exe)))
        lsthread.start()
    else:
        lsthread = None
    vlib.write_ndjson(cfile, cbeh)
    vlib.write_ndjson(sfile, sbeh)
    ctx.log("behaviours: claim race %d (exhaustive %d), operation sequences %d of %d" % (len(cbeh), len(cexh), len(sbeh), nseq))

    # execute on the real schedulers
    ctrace, strace = ctx.tmp("claim-trace.ndjson"), ctx.tmp("sched-trace.ndjson")
    pc, ps = _parallel([lambda: ctx.run([exe, "sched-claim", cfile, ctrace], timeout=1200),
                        lambda: ctx.run([exe, "sched-time", sfile, strace], timeout=1200)], width=1)
    cstats = json.loads(pc.stdout.strip().splitlines()[-1])
    sstats = json.loads(ps.stdout.strip().splitlines()[-1])
    longstall = None
    if lsthread is not None:
        lsthread.join()
        if isinstance(lsbox.get("r"), Exception):
            raise lsbox["r"]
        longstall = _longstall_judge(ctx, *lsbox["r"])
    crows, srows = vlib.read_ndjson(ctrace), vlib.read_ndjson(strace)

    cmon, smon, cconf, sconf = _parallel([
        lambda: ctx.tlc(S, "Trace_ClaimMon.cfg", dfs=True, files={"trace.ndjson": ctrace}, timeout=1500),
        lambda: ctx.tlc(S, "Trace_SchedMon.cfg", dfs=True, files={"trace.ndjson": strace}, timeout=1500),
        lambda: ctx.tlc(S, "Trace_Claim.cfg", dfs=True, files={"trace.ndjson": ctrace}, timeout=1500, expect_fail=True),
        lambda: ctx.tlc(S, "Trace_Sched.cfg", dfs=True, files={"trace.ndjson": strace}, timeout=1500, expect_fail=True)], width=4)
    if cmon.depth != len(crows) + 1 or smon.depth != len(srows) + 1:
        raise vlib.Infra("monitor did not consume the whole trace (%d of %d, %d of %d)" % (cmon.depth - 1, len(crows), smon.depth - 1, len(srows)))
    cmism, smism = _mismatches(cmon), _mismatches(smon)
    dist = vlib.tuples(smon.out, "DISTURBED")
    drift = []
    if cstats["drifts"]:
        drift.append("claim replay: %d behaviours left the model's path (%s)" % (cstats["drifts"], cstats["first_drift"]))
    if cconf.violated or cconf.error or cconf.depth != len(crows) + 1:
        drift.append("claim trace rejected at line %d of %d" % (cconf.depth, len(crows)))
    if sconf.error or not vlib.tuples(sconf.out, "ACCEPTED"):
        at = vlib.tuples(sconf.out, "AT")
        drift.append("scheduler trace rejected after line %s of %d" % (at[-1][0] if at else 0, len(srows)))

    # known finding: ScheduleOnce + PauseSchedule + ResumeSchedule loses the message (witness: the Resume failed with quartz' spent trigger)
    known, real = [], []
    for m in smism:
        if m[2] == "once-lost-after-pause-resume":
            beh = _cut(srows, int(m[0]))
            if any(r.get("op") == "Resume" and r.get("res") == "err" and "trigger has expired" in r.get("err", "") for r in beh) and ctx.is_known("OnceResumeLost"):
                known.append(m)
                continue
        real.append(m)
    if longstall and longstall["double"]:
        if longstall["witness"] and ctx.is_known("StaleCheckThenClaim"):
            ctx.report_known("StaleCheckThenClaim", "a node lagging almost one claim TTL passes the staleness check, stalls across the expiry of the "
                             "first claim and wins the same cron tick again: the tick is delivered twice (real-time scenario, %.0f s)" % longstall["wall_s"])
        else:
            real.append([0, 0, "tick-delivered-twice (long stall scenario)", 1, 2])
    if known:
        ctx.report_known("OnceResumeLost", "ScheduleOnce, PauseSchedule, ResumeSchedule: ResumeSchedule fails with 'trigger has expired' and the "
                         "message is never delivered (%d behaviours)" % len(known))
    nontrivial = len({_opkey(b) for b in sbeh if sum(o["op"] in ("Once", "Every") for o in b) >= 1 and sum(o["op"] in ("Pause", "Resume", "Cancel") and o["ref"] == "r1" for o in b) >= 1})
    cov = {
        "states": ctx.states()[0], "transitions": ctx.states()[1],
        "traces_validated_against_impl": len(cbeh) + len(sbeh),
        "samples": [[[s_["n"], s_["t"], s_["a"], s_["r"]] for s_ in cbeh[len(cbeh) // 2]], [[o["op"], o["ref"], o["arg"]] for o in sbeh[0]],
                    [[o["op"], o["ref"], o["arg"]] for o in sbeh[-1]]],
        "evaluations": len(cbeh) + len(sbeh), "distinct_nontrivial": nontrivial + len(cbeh),
        "rule": "claim race: every interleaving of the job-function steps (fire, staleness check, NX claim, tell) of 2 nodes x 1 tick with stale "
                "nodes, claim writes that fail / time out unapplied / time out after being applied, and claim expiry (TLC BFS) plus TLC random walks for 3 nodes x 2 ticks, replayed with the puppet "
                "scheduler; operation sequences: distinct sequences of length D over ScheduleOnce / Schedule / Pause / Resume / Cancel / wait "
                "(TLC BFS, seeded sample) executed in real time (tick 100 ms); non-trivial = schedules something and stops / resumes it",
        "exhaustive": True, "claim_behaviours": len(cbeh), "claim_exhaustive": len(cexh), "op_sequences": len(sbeh), "op_sequences_total": nseq,
        "events_validated": len(crows) + len(srows), "scheduling_jitter_us": sstats["jitter_us"],
        "disturbed_schedules_not_judged": int(dist[-1][0]) if dist else 0,
        "conformance_drift": "; ".join(drift) or None, "monitor_mismatches": len(cmism) + len(real), "known_finding_hits": len(known),
        "long_stall_scenario": longstall,
    }
    assumptions = ["quartz is a black box: assumed (and checked on every trace: fired-early) to start a firing not before its trigger time; a schedule whose "
                   "firings come in catch-up bursts (two starts less than half an interval apart, a stalled machine) is not judged for "
                   "delivered-after-stop / interval-stalled",
                   "cron ticks are not waited for: the job quartz holds for the schedule is executed with forged JobMetadata (run time) through the "
                   "verif shim; the cluster registry is a fake olric map (linearizable NX put) under goakt's real cluster engine; claim expiry is "
                   "explored under the NoLongStall assumption stated in Claim.tla",
                   "liveness checks (once-not-delivered, interval-stalled) use slack max(100 ms, 20 %) + 3 x measured scheduling jitter"]
    if cmism or real:
        m = (cmism + real)[0]
        rows = crows if cmism else srows
        snippet = ctx.tmp("violation.ndjson")
        vlib.write_ndjson(snippet, _cut(rows, int(m[0])))
        rp = ctx.save_replay("seed%d" % ctx.seed, snippet)
        ctx.evidence("model_checking", cov, assumptions, violations=len(cmism) + len(real))
        codes = collections.Counter(x[2] for x in cmism + real)
        raise vlib.Violation(pid, rp, "monitor: %s (behaviour %s, %s trace line %s, values %s / %s; %d mismatches: %s)"
                             % (m[2], m[1], "claim" if cmism else "scheduler", m[0], m[3], m[4], len(cmism) + len(real), dict(codes)))
    for d in drift:
        ctx.log("conformance drift (not a verdict): " + d)
    ctx.evidence("model_checking", cov, assumptions)


# ------------------------------------------------------------------------------------------------ C33
def run_c33(ctx, pid):
    quick = ctx.quick
    R = "Relocation"
    res = _parallel([lambda: _build(ctx),
                     lambda: ctx.tlc_must_hold(R, "MC_Run.cfg" if quick else "MC_Run_t.cfg", module="MC_Run", deadlock_check=False, timeout=2400, workers=2 if quick else 4),
                     lambda: _gen(ctx, R, "Gen_Run.cfg", "Gen_Run"),
                     lambda: _gen(ctx, R, "Sim_Run.cfg", "Gen_Run", simulate="num=%d" % (40 if quick else 300), depth=60)], width=4)
    exe, mc, one, two = res
    ctx.log("design: %d distinct states; once-per-departure / accounting invariants and completion hold" % mc.distinct)
    if len(one) < 300 or len(two) < 20:
        raise vlib.Infra("behaviour generation produced too little (%d/%d)" % (len(one), len(two)))

    def dedup(bs):
        seen, out = set(), []
        for b in bs:
            k = json.dumps(b, sort_keys=True)
            if k not in seen:
                seen.add(k)
                out.append(b)
        return out
    one, two = dedup(one), dedup(two)
    # every environment class is kept in the sample: no failure, an item nobody can recreate, one peer down, all peers down
    classes = collections.defaultdict(list)
    for b in one:
        classes[(bool(b["bad"]), len(b["down"]))].append(b)
    per = 7 if quick else 45
    sample1 = []
    for k in sorted(classes):
        sample1 += vlib.sample(ctx.rng, classes[k], per)
    sample2 = vlib.sample(ctx.rng, two, 14 if quick else 120)
    behaviours = sample1 + sample2
    bfile = ctx.tmp("reloc-behaviours.ndjson")
    vlib.write_ndjson(bfile, behaviours)
    ctx.log("behaviours: %d (one departed node: %d of %d, two departed nodes: %d of %d)" % (len(behaviours), len(sample1), len(one), len(sample2), len(two)))

    trace = ctx.tmp("reloc-trace.ndjson")
    p = ctx.run([exe, "reloc", bfile, trace], timeout=2400, env={"VERIF_RELOC_WIDTH": "4"})
    stats = json.loads(p.stdout.strip().splitlines()[-1])
    rows = vlib.read_ndjson(trace)
    mon, conf = _parallel([
        lambda: ctx.tlc(R, "Trace_RunMon.cfg", dfs=True, files={"trace.ndjson": trace}, timeout=1500),
        lambda: ctx.tlc(R, "Trace_Run.cfg", dfs=True, files={"trace.ndjson": trace}, timeout=1500, expect_fail=True)])
    if mon.depth != len(rows) + 1:
        raise vlib.Infra("monitor did not consume the whole trace (%d of %d)" % (mon.depth - 1, len(rows)))
    mism = _mismatches(mon)
    drift = []
    if stats["drifts"]:
        drift.append("%d behaviours left the model's path (%s)" % (stats["drifts"], stats["first_drift"]))
    if conf.violated or conf.error or conf.depth != len(rows) + 1:
        drift.append("trace rejected at line %d of %d: %s" % (conf.depth, len(rows), json.dumps(rows[min(conf.depth, len(rows)) - 1])[:160]))
    items = [r for r in rows if r.get("op") == "Item"]
    cov = {
        "states": ctx.states()[0], "transitions": ctx.states()[1],
        "traces_validated_against_impl": len(behaviours),
        "samples": [[[s_["act"], s_["a"], s_["i"]] for s_ in b["steps"]] + [b["bad"], b["down"]] for b in (behaviours[0], behaviours[len(sample1) - 1], behaviours[-1])],
        "evaluations": len(behaviours),
        "distinct_nontrivial": len({json.dumps(b, sort_keys=True) for b in behaviours if sum(s_["act"] == "NodeLeft" for s_ in b["steps"]) >= 2 and (b["bad"] or b["down"])}),
        "rule": "departure histories: interleavings of NodeLeft notifications (duplicates before the worker exists, while it runs, after it relocated, "
                "after completion) with the relocator / worker steps for one departed node (TLC BFS, all environments: items no survivor can recreate, "
                "unreachable peers; seeded sample per environment class) and TLC random walks for two departed nodes; non-trivial = a duplicate "
                "notification and a failing item or peer",
        "exhaustive": False, "events_validated": len(rows), "items_accounted": len(items),
        "items_recreated": sum(1 for r in items if r["non"] == 1), "items_reported_failed": sum(1 for r in items if r["non"] == 0),
        "failed_events": sum(1 for r in rows if r.get("op") == "Event" and r.get("kind") == "Failed"),
        "conformance_drift": "; ".join(drift) or None, "monitor_mismatches": len(mism),
    }
    assumptions = ["the leader, the peers and the departed nodes are real actor systems in one process; the cluster registry and membership are a fake olric "
                   "map / client under goakt's real cluster engine; RelocateBatch travels over real TCP remoting between them; an unreachable peer is a "
                   "remoting client wrapper that refuses RelocateBatch for that peer; an item that cannot be recreated is an actor kind no survivor registered",
                   "the worker is gated at two hook points (before relocate(), before its completion bookkeeping); interleavings inside relocate() and the "
                   "placement itself (C32) are not explored; grains and singletons are not part of the departed nodes' state",
                   "the sample of behaviours is seeded; the design model is checked exhaustively within its bounds"]
    if mism:
        m = mism[0]
        snippet = ctx.tmp("violation.ndjson")
        vlib.write_ndjson(snippet, _cut(rows, int(m[0])))
        rp = ctx.save_replay("seed%d" % ctx.seed, snippet)
        ctx.evidence("model_checking", cov, assumptions, violations=len(mism))
        codes = collections.Counter(x[2] for x in mism)
        raise vlib.Violation(pid, rp, "monitor: %s (behaviour %s, trace line %s, values %s / %s; %d mismatches: %s)"
                             % (m[2], m[1], m[0], m[3], m[4], len(mism), dict(codes)))
    for d in drift:
        ctx.log("conformance drift (not a verdict): " + d)
    ctx.evidence("model_checking", cov, assumptions)


def run(ctx, pid):
    if pid == "C33":
        return run_c33(ctx, pid)
    if pid == "C35":
        return run_c35(ctx, pid)
    if pid == "C19":
        return run_c19(ctx, pid)
    raise vlib.Infra("clusterops: unknown property " + pid)
