"""C30 — a grain is active on at most one node at a time; C36 — a cluster singleton runs at most once cluster-wide.

Design:     specs/Grain/Registry.tla (grain activation protocol over the registry: AskGrain / GrainIdentity / passivation programs of
            2-3 nodes at registry-operation granularity), specs/Cluster/Singleton.tla (SpawnSingleton under diverging leader views);
            TLC exhaustive over several thread tables; Defects = {} is the repaired design, CODE_DEFECTS the code as it is.
spec->code: walks covering every edge of the bounded state graphs of the code model + TLC random walks are executed on 3 REAL actor
            systems in one process that share a fake olric store underneath goakt's REAL cluster engine; every registry operation is a
            puppet-scheduler gate (harness/cmd/grainreg); in-process loopback replaces the TCP hop of the four remoting calls used.
code->spec: Mon_Registry / Mon_Singleton judge the events the test grain / test actor report themselves (verdict); Trace_Registry /
            Trace_Singleton validate every puppet step against the design spec (drift); seeded random schedules over the real gates
            (no model involved) are judged by the same monitors.
"""
import json, os, re, collections, concurrent.futures
import vlib, tlagraph

PROPERTIES = ["C30", "C36"]

# ------------------------------------------------------------------------------------------------ C30
GSPEC = "Grain"
ALL_DEFECTS = ["UnclaimedActivate", "DeleteBeforeRemove", "ForeignRemove", "RepublishActive"]
# the defect branches the code under test still has (known findings); fixed ones are removed from this list
CODE_DEFECTS = ["UnclaimedActivate", "ForeignRemove", "RepublishActive"]
# tables on which a single defect breaks the repaired design (TLC counterexample = witness behaviour, replayed on the real code)
WITNESS = {"UnclaimedActivate": ("sss", "abc"), "DeleteBeforeRemove": ("ssp", "aba"), "RepublishActive": ("sips", "aaab"),
           "ForeignRemove": ("sis", "bac")}
KIND = {"s": "send", "i": "ident", "p": "pass"}


def table(kinds, orgs, pfails=0):
    """'ssp', 'aba' -> thread table; pfails = injected PutGrain (publication) failures"""
    ts = ["t%d" % (i + 1) for i in range(len(kinds))]
    return {"threads": ts, "kinds": {t: KIND[k] for t, k in zip(ts, kinds)}, "orgs": {t: o.upper() for t, o in zip(ts, orgs)},
            "name": kinds + "_" + orgs + ("_pf" if pfails else ""), "pfails": pfails}


def gcfg(tb, defects, invariants=(), view=True, fails=1, pdf=False, spec="Spec", extra=""):
    k = [tb["kinds"].get("t%d" % i, "-") for i in range(1, 5)]
    o = [tb["orgs"].get("t%d" % i, "-") for i in range(1, 5)]
    lines = ["SPECIFICATION " + spec, "CONSTANTS", '  Nodes = {"A", "B", "C"}',
             "  Threads = {%s}" % ", ".join('"%s"' % t for t in tb["threads"])]
    lines += ['  K%d = "%s"' % (i + 1, k[i]) for i in range(4)] + ['  O%d = "%s"' % (i + 1, o[i]) for i in range(4)]
    lines += ["  Kind <- KindT", "  Org <- OrgT", "  MaxHops = 2", "  MaxFails = %d" % fails, "  MaxPutFails = %d" % tb.get("pfails", 0),
              "  PassDuringFlight = %s" % ("TRUE" if pdf else "FALSE"),
              "  Defects = {%s}" % ", ".join('"%s"' % d for d in defects)]
    if view:
        lines.append("VIEW View")
    if invariants:
        lines.append("INVARIANTS " + " ".join(invariants))
    lines.append("CHECK_DEADLOCK FALSE")
    if extra:
        lines.append(extra)
    return "\n".join(lines) + "\n"


def write(ctx, name, text):
    p = ctx.tmp(name)
    with open(p, "w") as f:
        f.write(text)
    return p


_LAST = re.compile(r'(\w+) \|-> "([^"]*)"')


def walks_to_behaviours(g, walks, tb):
    out = []
    for w in walks:
        steps, tags = [], set()
        for s in w:
            last = dict(_LAST.findall(g.state(s["to"])["last"]))
            steps.append({"t": last["t"], "a": last["a"], "pc": last["pc"], "at": last["at"]})
            if last.get("d", "-") != "-":
                tags.add(last["d"])
        out.append({"kinds": tb["kinds"], "orgs": tb["orgs"], "steps": steps, "tag": tb["name"] + "|" + ",".join(sorted(tags))})
    return out


def sim_to_behaviours(hists, tb):
    out = []
    for h in hists:
        tags = sorted({s["d"] for s in h if s.get("d", "-") != "-"})
        out.append({"kinds": tb["kinds"], "orgs": tb["orgs"], "steps": [{"t": s["t"], "a": s["a"], "pc": s["pc"], "at": s["at"]} for s in h],
                    "tag": tb["name"] + "|" + ",".join(tags)})
    return out


def cex_to_behaviour(out, tb, defect):
    """The error trace of a TLC run -> behaviour (the `last` variable of every state after the initial one)."""
    steps = []
    for m in re.finditer(r'/\\ last = (\[.*?\])\n', out, re.S):
        last = dict(_LAST.findall(m.group(1)))
        if last.get("a") and last["a"] != "init":
            steps.append({"t": last["t"], "a": last["a"], "pc": last["pc"], "at": last["at"]})
    return {"kinds": tb["kinds"], "orgs": tb["orgs"], "steps": steps, "tag": "witness-" + defect + "|" + defect}


def split_behaviours(rows):
    """[(start, end)] of the histories in a trace (New ... next New)"""
    starts = [i for i, r in enumerate(rows) if r["ev"] == "New"]
    return [(a, b) for a, b in zip(starts, starts[1:])]


def classify_c30(hrows):
    """Which defect branch does the real history exhibit (witness on the real trace, not the property id)?
    ForeignRemove      a GrainIdentity thread removed a record it had not claimed (and then activated locally);
    RepublishActive    a GrainIdentity thread wrote the record with a plain PutGrain although it neither activated an instance nor
                       made a claim in this call (re-publication of an already active process);
    UnclaimedActivate  a thread activated an instance after a failed claim whose follow-up lookup found nothing;
    DeleteBeforeRemove a passivation's RemoveGrain ran after a re-activation on the same node."""
    kinds = hrows[0].get("kinds", {})
    found = []
    for t, k in kinds.items():
        ops = [r for r in hrows if r["ev"] in ("op", "act", "deact") and r.get("t") == t]
        claimed = activated = False
        last_nx_failed = unclaimed_window = False
        for r in ops:
            if r["ev"] == "op":
                if r["op"] == "PutGrainIfAbsent":
                    claimed = claimed or r["res"] == 1
                    last_nx_failed = r["res"] == 0
                    unclaimed_window = False
                elif r["op"] == "GetGrain" and last_nx_failed:
                    unclaimed_window = r["res"] == 0
                    last_nx_failed = False
                elif r["op"] == "RemoveGrain" and k == "ident" and not claimed:
                    found.append("ForeignRemove")
                elif r["op"] == "PutGrain" and k == "ident" and not claimed and not activated and r["res"] == 1:
                    found.append("RepublishActive")
                else:
                    last_nx_failed = False
            elif r["ev"] == "act" and r["ok"] == 1:
                activated = True
                if unclaimed_window:
                    found.append("UnclaimedActivate")
        if k == "pass":
            de = [i for i, r in enumerate(hrows) if r["ev"] == "deact" and r.get("t") == t]
            rm = [i for i, r in enumerate(hrows) if r["ev"] == "op" and r.get("t") == t and r["op"] == "RemoveGrain"]
            if de and rm:
                node = hrows[de[0]]["n"]
                if any(r["ev"] == "act" and r["ok"] == 1 and r["n"] == node for r in hrows[de[0]:rm[0]]):
                    found.append("DeleteBeforeRemove")
    return found


def run_c30(ctx, pid):
    quick = ctx.quick
    rng = ctx.rng
    pool = concurrent.futures.ThreadPoolExecutor(max_workers=4 if quick else 5)
    exe = ctx.build("grainreg")

    def tlc(tb, defects, label, must_hold=False, **kw):
        cfgname = "g_%s_%s.cfg" % (tb["name"], label)
        inv = kw.pop("invariants", ("TypeOK", "OneNode", "RegistryNamesHolder"))
        p = write(ctx, cfgname, gcfg(tb, defects, invariants=inv, view=kw.pop("view", True), fails=kw.pop("fails", 1), pdf=kw.pop("pdf", False)))
        fn = ctx.tlc_must_hold if must_hold else ctx.tlc
        return fn(GSPEC, cfgname, module=kw.pop("module", "MC_Registry"), files={cfgname: p}, name=cfgname[:-4],
                  timeout=kw.pop("timeout", 1500), **kw)

    # ---- design level
    design_q = [table("sss", "abc", 1), table("ssp", "aba"), table("sip", "aba", 1)]
    design_t = [table("ssi", "abc"), table("iis", "aab"), table("sss", "aab"), table("ssp", "abc"), table("sip", "abc"), table("ssi", "aba"),
                table("iis", "abc"), table("iip", "aba"), table("sis", "bac"),
                table("sssp", "abca"), table("ssip", "abaa"), table("sisp", "abba"), table("ssss", "abca"), table("siip", "abab"), table("sips", "aaab"),
                table("ssp", "aba", 1), table("ssi", "aba", 1), table("sis", "bac", 1), table("iis", "aab", 1)]
    fut_design = [pool.submit(tlc, tb, [], "repaired", must_hold=True, workers=2) for tb in design_q]
    if not quick:
        fut_design += [pool.submit(tlc, tb, [], "repaired", must_hold=True, workers=4, fails=2, timeout=3000) for tb in design_t]
    # every named defect alone breaks the repaired design (otherwise the Defects table is stale); the counterexample is the witness
    fut_wit = {d: pool.submit(tlc, table(*WITNESS[d]), [d], "only-" + d, expect_fail=True, workers=2) for d in ALL_DEFECTS}

    # ---- spec -> code: behaviours of the code model
    code_tables = [table("sss", "abc", 1), table("ssp", "aba"), table("sip", "aba"), table("ssi", "aba", 1)]
    if not quick:
        code_tables += [table("sss", "aab"), table("ssp", "abc", 1), table("iis", "aab"), table("sis", "bac", 1), table("sssp", "abca"), table("sips", "aaab")]
    nsel = 150 if quick else 800
    nsim = 150 if quick else 800

    def dump(tb):
        return tlc(tb, CODE_DEFECTS, "code-dump", invariants=("TypeOK",), view=False, dump_dot=True, workers=2)

    def sim(tb):
        cfgname = "g_%s_sim.cfg" % tb["name"]
        p = write(ctx, cfgname, gcfg(tb, CODE_DEFECTS, invariants=(), view=False, fails=2, spec="GSpec", extra="CONSTRAINT Emit"))
        r = ctx.tlc(GSPEC, cfgname, module="Gen_Registry", files={cfgname: p}, simulate="num=%d" % nsim, depth=60, deadlock_check=False,
                    workers=1, timeout=900, name=cfgname[:-4])
        return vlib.parse_sim_behaviours(r.out)

    fut_dump = {tb["name"]: (tb, pool.submit(dump, tb)) for tb in code_tables}
    fut_sim = {tb["name"]: (tb, pool.submit(sim, tb)) for tb in code_tables}

    behaviours, per_table, samples = [], collections.Counter(), []
    edge_total = 0
    for name, (tb, f) in fut_dump.items():
        d = f.result()
        g = tlagraph.Graph.load(os.path.join(d.rundir, "graph.dot"))
        walks, left = g.edge_cover(rng)
        if left:
            raise vlib.Infra("edge cover incomplete (%s)" % name)
        edge_total += len(walks)
        sel = vlib.sample(rng, walks, nsel)
        bs = walks_to_behaviours(g, sel, tb)
        behaviours += bs
        per_table[name] += len(bs)
        samples.append({name: [[s["t"], s["a"], s["pc"]] for s in bs[0]["steps"]][:30]})
    for name, (tb, f) in fut_sim.items():
        bs = sim_to_behaviours(f.result(), tb)
        if len(bs) < nsim // 4:
            raise vlib.Infra("simulation produced too few behaviours for %s (%d)" % (name, len(bs)))
        behaviours += bs
        per_table[name] += len(bs)
    for d, f in fut_wit.items():
        r = f.result()
        if r.violated not in ("OneNode", "RegistryNamesHolder"):
            raise vlib.Infra("Registry.tla with Defects={%s} no longer violates C30's invariants (stale Defects table?)" % d)
        tb = table(*WITNESS[d])
        b = cex_to_behaviour(r.out, tb, d)
        if len(b["steps"]) < 8:
            raise vlib.Infra("could not read the counterexample of Defects={%s}" % d)
        behaviours.append(b)
        per_table["witness-" + d] += 1
    bfile = ctx.tmp("behaviours.ndjson")
    vlib.write_ndjson(bfile, behaviours)
    ctx.log("behaviours: %d (edge-cover walks available %d) %s" % (len(behaviours), edge_total, dict(per_table)))

    trace = ctx.tmp("trace.ndjson")
    p = ctx.run([exe, "grain-replay", bfile, trace], timeout=2400)
    rstats = json.loads(p.stdout.strip().splitlines()[-1])
    ctx.log("replay: %s" % rstats)

    # ---- random schedules over the real gates
    def explore(mix, n):
        t = ctx.tmp("explore-%s.ndjson" % mix)
        pr = ctx.run([exe, "grain-explore", str(n), str(ctx.seed * 100 + len(mix) + sum(map(ord, mix))), mix, t], timeout=2400)
        return mix, json.loads(pr.stdout.strip().splitlines()[-1]), t

    nexp = 150 if quick else 1500
    fut_exp = [pool.submit(explore, mix, nexp) for mix in ("sss", "ssp", "sssp", "ssi", "sip")]

    # ---- code -> spec
    def monitor(path, label):
        r = ctx.tlc(GSPEC, "Mon_Registry.cfg", module="Mon_Registry", dfs=True, files={"trace.ndjson": path}, timeout=2400, heap="6g",
                    name="mon-" + label)
        n = sum(1 for _ in open(path))
        if r.depth != n + 1:
            raise vlib.Infra("monitor consumed %d of %d trace lines (%s)" % (r.depth - 1, n, label))
        mm = vlib.tuples(r.out, "MISMATCH")
        if len(mm) != r.out.count('"MISMATCH"'):
            raise vlib.Infra("unparsed MISMATCH lines in monitor output (%s)" % label)
        if any("HARNESS" in str(m[2]) for m in mm):
            raise vlib.Infra("harness bookkeeping disagrees with the monitor (%s): %s" % (label, mm[0]))
        return [(int(m[1]), m[2], m[3]) for m in mm], n

    def conformance(rows, tb):
        sub = [r for a, b in split_behaviours(rows) if rows[a].get("tag", "").split("|")[0] == tb["name"] for r in rows[a:b]]
        if not sub:
            return tb["name"], None, 0
        sub.append({"ev": "New", "id": "", "tag": "", "kinds": {}, "orgs": {}})
        path = ctx.tmp("conf-%s.ndjson" % tb["name"])
        vlib.write_ndjson(path, sub)
        cfgname = "g_%s_trace.cfg" % tb["name"]
        pc = write(ctx, cfgname, gcfg(dict(tb, pfails=9), CODE_DEFECTS, invariants=(), view=False, fails=9, spec="TSpec"))
        r = ctx.tlc(GSPEC, cfgname, module="Trace_Registry", dfs=True, files={cfgname: pc, "trace.ndjson": path}, timeout=2400, heap="6g",
                    expect_fail=True, name=cfgname[:-4])
        if r.error:
            raise vlib.Infra("conformance spec error (%s): %s" % (tb["name"], r.error[:600]))
        return tb["name"], (None if r.depth == len(sub) + 1 else "rejected at line %d of %d: %s" % (r.depth, len(sub), json.dumps(sub[min(r.depth, len(sub)) - 1])[:300])), len(sub)

    rows = vlib.read_ndjson(trace)
    fut_mon = [pool.submit(monitor, trace, "replay")]
    fut_conf = [pool.submit(conformance, rows, tb) for tb in code_tables]

    tot = {"hist": rstats["behaviours"], "steps": rstats["steps"], "events": 0, "drift": 0, "notq": rstats["not_quiescent"]}
    results = []   # (label, trace path, mismatches)
    mm, n = fut_mon[0].result()
    tot["events"] += n
    results.append(("replay", trace, mm))
    # drift of the replays: witness behaviours of FIXED defects are expected to leave the model (the code no longer takes that branch)
    drift_by = collections.Counter()
    for a, b in split_behaviours(rows):
        if any(r["ev"] == "drift" for r in rows[a:b]):
            drift_by[rows[a].get("tag", "").split("|")[0]] += 1
    tot["drift"] = sum(v for k, v in drift_by.items() if not k.startswith("witness-"))
    for d in ALL_DEFECTS:
        if d not in CODE_DEFECTS and not drift_by.get("witness-" + d):
            ctx.log("note: the witness behaviour of the fixed defect %s was followed to the end by the code under test" % d)
    merged = ctx.tmp("explore-all.ndjson")
    with open(merged, "w") as out:
        for f in fut_exp:
            mix, es, t = f.result()
            lines = open(t).read().splitlines()
            out.write("\n".join(lines[:-1] if lines and '"id":""' in lines[-1] else lines) + "\n")
            tot["hist"] += es["behaviours"]
            tot["steps"] += es["steps"]
            tot["notq"] += es["not_quiescent"]
            ctx.log("explore %s: %s" % (mix, es))
        out.write(json.dumps({"ev": "New", "id": "", "tag": "", "kinds": {}, "orgs": {}}) + "\n")
    m2, n2 = monitor(merged, "explore")
    tot["events"] += n2
    results.append(("explore", merged, m2))
    drift_conf = {}
    for f in fut_conf:
        name, d, nl = f.result()
        if d:
            drift_conf[name] = d
    for f in fut_design:
        f.result()
    known_hits = collections.Counter()
    unknown = []
    for label, path, mm in results:
        if not mm:
            continue
        trows = vlib.read_ndjson(path)
        spans = split_behaviours(trows)
        for (line, what, gid) in mm:
            a, b = next(((a, b) for a, b in spans if a < line <= b), (0, len(trows)))
            h = trows[a:b]
            cls = [c for c in classify_c30(h) if ctx.is_known(c)]
            if cls:
                for c in set(cls):
                    known_hits[c] += 1
                    ctx.report_known(c, ctx.is_known(c)["what"])
            else:
                unknown.append((label, path, line, what, h))

    def finish(violations=0):
        st, tr = ctx.states()
        cov = {"states": st, "transitions": tr, "traces_validated_against_impl": tot["hist"], "samples": samples[:3],
               "evaluations": tot["hist"], "distinct_nontrivial": len({json.dumps(b["steps"]) for b in behaviours}),
               "rule": "executions = puppet replays on 3 real actor systems of (a) walks sampled from an edge cover of the state graphs of "
                       "Registry.tla (code model, thread tables %s) and (b) TLC random walks to quiescence, plus (c) seeded random schedules "
                       "over the real registry gates (mixes sss ssp sssp ssi sip); distinct_nontrivial = distinct replayed step sequences "
                       "(each interleaves 3 threads on 2-3 nodes)" % ",".join(t["name"] for t in code_tables),
               "atomic_steps_replayed": tot["steps"], "replay_drift": tot["drift"], "replay_drift_by_table": dict(drift_by),
               "conformance_drift": drift_conf or None, "events_judged": tot["events"], "not_quiescent": tot["notq"],
               "known_finding_hits": dict(known_hits), "code_defects_modelled": CODE_DEFECTS, "exhaustive": False}
        ctx.evidence("model_checking", cov,
                     ["one grain identity; 3 nodes; <= 4 concurrent calls; <= 2 injected OnActivate failures (panic in OnActivate), <= 1 injected PutGrain failure",
                      "the registry is linearizable (one atomic step per operation): a fake olric DMap/Client under goakt's real cluster engine",
                      "remote hops (RemoteAskGrain, RemoteActivateGrain) are delivered in-process on the caller's goroutine to the target's real handler",
                      "environment assumption PassDuringFlight = FALSE: passivation does not fire while an activation of the grain is in flight on its node",
                      "deactivation is the passivation path (passivationTry on a non-turn goroutine); poison-pill / shutdown / relocation are not explored"],
                     violations=violations)

    if unknown:
        label, path, line, what, h = unknown[0]
        snippet = ctx.tmp("violation.ndjson")
        vlib.write_ndjson(snippet, h)
        rp = ctx.save_replay("seed%d" % ctx.seed, snippet)
        finish(violations=len(unknown))
        raise vlib.Violation(pid, rp, "%s: %s (trace line %d of %s, grain %s; %d unexplained mismatches)" %
                             (label, what, line, os.path.basename(path), h[0].get("id"), len(unknown)))
    if drift_conf:
        ctx.log("conformance drift (not a verdict): %s" % drift_conf)
    if drift_by:
        ctx.log("replay drift (not a verdict): %s of %d behaviours: %s" % (dict(drift_by), rstats["behaviours"], rstats.get("drift_at")))
    pool.shutdown()
    finish()


def run(ctx, pid):
    if pid == "C30":
        return run_c30(ctx, pid)
    return run_c36(ctx, pid)


# ------------------------------------------------------------------------------------------------ C36
SSPEC = "Cluster"
S_CODE_DEFECTS = ["NonAtomicPublish", "BlindRemove"]     # known findings = the branches the code has
# single branches whose TLC counterexample is replayed on the real code. The last two are NOT in the code (seeded-mutant classes): on the
# unchanged code their replay leaves the model harmlessly, on a tree that has the branch it reproduces the violation.
S_WITNESS = {
    "NonAtomicPublish": (["NonAtomicPublish"], lambda: stable("ac", "a", "c", 2)),
    "BlindRemove": (["BlindRemove"], lambda: stable("ba", "b", "a", 2, kinds="rr", rec0="D", name="reloc_ba")),
    "QuorumMissFallsThrough": (["QuorumMissFallsThrough"], lambda: stable("ba", "b", "a", 2, kinds="rr", rec0="D", faults=1, name="relocf_ba")),
    "SoloSelfLeader": (["NonAtomicPublish", "SoloSelfLeader"], lambda: stable("ac", "a", "a", 0, solo="c", lead={"C": "-"}, name="solo_ac")),
}


def stable(orgs, l0, newlead, changes, kinds=None, solo="", rec0="-", faults=0, lead=None, name=None):
    """orgs 'ac' = origin nodes of t1.., l0 = initial coordinator in every view (lead = per-node override, '-' = no coordinator),
    kinds 's' spawn / 'r' relocation item, solo = nodes whose view is [self], rec0 = initial record ('D' = departed node)"""
    ts = ["t%d" % (i + 1) for i in range(len(orgs))]
    kinds = kinds or "s" * len(orgs)
    ld = {n: l0.upper() for n in "ABC"}
    for n, v in (lead or {}).items():
        ld[n] = v
    return {"threads": ts, "orgs": {t: o.upper() for t, o in zip(ts, orgs)}, "kinds": {t: ("reloc" if k == "r" else "spawn") for t, k in zip(ts, kinds)},
            "lead": ld, "solo": sorted(solo.upper()), "rec0": rec0, "faults": faults,
            "newlead": newlead.upper(), "changes": changes, "name": name or "%s_%s%s%d" % (orgs, l0, newlead, changes)}


def scfg(tb, defects, invariants=(), view=True, spec="Spec", extra="", faults=None):
    o = [tb["orgs"].get("t%d" % i, "-") for i in range(1, 4)]
    k = [tb["kinds"].get("t%d" % i, "-") for i in range(1, 4)]
    lines = ["SPECIFICATION " + spec, "CONSTANTS", '  Nodes = {"A", "B", "C"}',
             "  Threads = {%s}" % ", ".join('"%s"' % t for t in tb["threads"])]
    lines += ['  O%d = "%s"' % (i + 1, o[i]) for i in range(3)] + ['  K%d = "%s"' % (i + 1, k[i]) for i in range(3)]
    lines += ['  L%s = "%s"' % (n, tb["lead"][n]) for n in "ABC"]
    lines += ["  Org <- OrgT", "  Kind <- KindT", "  Lead0 <- LeadT", "  Solo = {%s}" % ", ".join('"%s"' % n for n in tb["solo"]),
              '  Rec0 = "%s"' % tb["rec0"], '  NewLead = "%s"' % tb["newlead"], "  MaxChanges = %d" % tb["changes"], "  MaxHops = 2",
              "  MaxTries = 1", "  MaxFaults = %d" % (tb["faults"] if faults is None else faults),
              "  Defects = {%s}" % ", ".join('"%s"' % d for d in defects)]
    if view:
        lines.append("VIEW View0")
    if invariants:
        lines.append("INVARIANTS " + " ".join(invariants))
    lines.append("CHECK_DEADLOCK FALSE")
    if extra:
        lines.append(extra)
    return "\n".join(lines) + "\n"


def s_steps(lasts):
    return [{"t": x["t"], "a": x["a"], "pc": x["pc"], "at": x["at"], "n": x.get("n", "-"), "m": x.get("m", "-")} for x in lasts]


def _coordinator_ok(hrows, start_row):
    """the node started its instance after ITS OWN membership view had flagged it coordinator: some Members answer on that node before
    the precondition read of the start named the node itself (answers in between may belong to calls forwarded by other nodes). A node
    whose view never flagged it (no coordinator in the view, view = [self]) does not qualify."""
    i = hrows.index(start_row)
    checks = [j for j, r in enumerate(hrows[:i]) if r["ev"] == "op" and r["op"] == "ActorExists" and r["n"] == start_row["n"]]
    upto = checks[-1] if checks else i
    return any(r["ev"] == "op" and r["op"] == "Members" and r["n"] == start_row["n"] and r["res"] >= 0 and r["own"] == start_row["n"]
               for r in hrows[:upto])


def _bad_removes(hrows, upto):
    """(index, known?) of RemoveActor operations that removed the record of a live instance (on another node or by another call on the
    same node; an instance's own stop removes its record only after it has stopped). Known (BlindRemove) iff the
    removing relocation thread's gating GetActor had SUCCEEDED (no record, or the departed node's record) - a failed gating read is not."""
    out, running = [], {}
    for i, r in enumerate(hrows[:upto]):
        if r["ev"] == "start":
            running[r["inst"]] = r["n"]
        elif r["ev"] == "stop":
            running.pop(r["inst"], None)
        elif r["ev"] == "op" and r["op"] == "RemoveActor" and r.get("prev") not in ("", "-", "D", "?", None) \
                and r["prev"] in running.values():
            gets = [g for g in hrows[:i] if g["ev"] == "op" and g["op"] == "GetActor" and g.get("t") and g.get("t") == r.get("t")]
            ok = bool(gets) and r.get("t") and (gets[-1]["res"] == 0 or (gets[-1]["res"] == 1 and gets[-1]["own"] == "D"))
            out.append((i, bool(ok)))
    return out


def classify_c36(hrows, line_idx):
    """Which KNOWN finding does the monitor failure at hrows[line_idx] exhibit (witness on the real trace)?
    BlindRemove: the failure is a RemoveActor of a live survivor's record by a relocation thread whose gating read had succeeded, or a
    duplicate start that follows such a removal.
    NonAtomicPublish: the start that makes two instances run at once happened on a node OTHER than the node of the instance already
    running, BOTH nodes were coordinator in their own membership view when they started, on both nodes the precondition read
    (ActorExists, as answered by the store) had said 'no record', and the second node's read came BEFORE the first node's PutActor."""
    e = hrows[line_idx]
    if e["ev"] == "op" and e.get("op") == "RemoveActor":
        br = [k for i, k in _bad_removes(hrows, line_idx + 1) if i == line_idx]
        return ["BlindRemove"] if br and br[0] else []
    if e["ev"] != "start":
        return []
    running = {}
    for r in hrows[:line_idx]:
        if r["ev"] == "start":
            running[r["inst"]] = r
        elif r["ev"] == "stop":
            running.pop(r["inst"], None)
    if len(running) != 1:
        return []
    other = next(iter(running.values()))
    if other["n"] == e["n"] or not _coordinator_ok(hrows, e) or not _coordinator_ok(hrows, other):
        return []
    br = _bad_removes(hrows, line_idx)
    if br:
        return ["BlindRemove"] if all(k for _, k in br) else []

    def check_idx(start_row):
        """index of the node's last ActorExists before its start if the store answered 'no record', else None"""
        i = hrows.index(start_row)
        prior = [j for j, r in enumerate(hrows[:i]) if r["ev"] == "op" and r["op"] == "ActorExists" and r["n"] == start_row["n"]]
        return prior[-1] if prior and hrows[prior[-1]]["res"] == 0 else None
    c2, c1 = check_idx(e), check_idx(other)
    if c2 is None or c1 is None:
        return []
    # the window: the second node checked BEFORE the first one published
    published = [j for j, r in enumerate(hrows[:line_idx]) if r["ev"] == "op" and r["op"] == "PutActor" and r["n"] == other["n"] and r["res"] == 1]
    if published and published[0] < c2:
        return []
    return ["NonAtomicPublish"]


def run_c36(ctx, pid):
    quick = ctx.quick
    rng = ctx.rng
    pool = concurrent.futures.ThreadPoolExecutor(max_workers=4)
    exe = ctx.build("grainreg")

    def tlc(tb, defects, label, must_hold=False, **kw):
        cfgname = "s_%s_%s.cfg" % (tb["name"], label)
        inv = kw.pop("invariants", ("TypeOK", "OneSingleton", "NoForeignRemove"))
        p = write(ctx, cfgname, scfg(tb, defects, invariants=inv, view=kw.pop("view", True)))
        fn = ctx.tlc_must_hold if must_hold else ctx.tlc
        return fn(SSPEC, cfgname, module="MC_Singleton", files={cfgname: p}, name=cfgname[:-4], timeout=kw.pop("timeout", 1500), **kw)

    tables = [stable("ac", "a", "c", 2), stable("aa", "a", "b", 2, faults=1, name="aa_ab2f"), stable("abc", "a", "b", 2),
              stable("ba", "b", "a", 2, kinds="rr", rec0="D", faults=1, name="relocf_ba"),
              stable("ab", "a", "b", 2, kinds="sr", rec0="D", name="mixr_ab"),
              stable("ac", "a", "b", 1, faults=1, lead={"C": "-"}, solo="c", name="solo_ac1"),
              stable("ab", "a", "b", 1, lead={"B": "-"}, name="nocoord_ab")]
    if not quick:
        tables += [stable("acb", "a", "c", 2, kinds="srs", rec0="D", name="mixr_acb"),
                   stable("abc", "a", "b", 2, faults=1, lead={"C": "-"}, solo="c", name="solo_abc"),
                   stable("bc", "a", "b", 3), stable("abc", "a", "c", 3), stable("acc", "a", "c", 3), stable("bbc", "a", "c", 3), stable("cab", "b", "a", 3),
                   stable("acb", "a", "c", 2, kinds="ssr", rec0="D", faults=1, lead={"B": "-"}, name="mix_acb")]
    fut_design = [pool.submit(tlc, tb, [], "repaired", must_hold=True, workers=2) for tb in tables]
    # without a second coordinator the code's NonAtomicPublish branch alone is harmless: a node whose view flags nobody must not spawn
    solo_tb = S_WITNESS["SoloSelfLeader"][1]()
    fut_design.append(pool.submit(tlc, solo_tb, ["NonAtomicPublish", "BlindRemove"], "code-holds", must_hold=True, workers=2))
    fut_wit = {d: (tbf(), pool.submit(tlc, tbf(), defs, "only-" + d, expect_fail=True, workers=2)) for d, (defs, tbf) in S_WITNESS.items()}

    nsel = 150 if quick else 1200
    nsim = 150 if quick else 1200

    def dump(tb):
        return tlc(tb, S_CODE_DEFECTS, "code-dump", invariants=("TypeOK",), view=False, dump_dot=True, workers=2)

    def sim(tb):
        cfgname = "s_%s_sim.cfg" % tb["name"]
        p = write(ctx, cfgname, scfg(tb, S_CODE_DEFECTS, invariants=(), view=False, spec="GSpec", extra="CONSTRAINT Emit"))
        r = ctx.tlc(SSPEC, cfgname, module="Gen_Singleton", files={cfgname: p}, simulate="num=%d" % nsim, depth=60, deadlock_check=False,
                    workers=1, timeout=900, name=cfgname[:-4])
        return vlib.parse_sim_behaviours(r.out)

    def beh(tb):
        return {"orgs": tb["orgs"], "kinds": tb["kinds"], "lead": tb["lead"], "solo": tb["solo"], "rec0": tb["rec0"]}

    fut_dump = {tb["name"]: (tb, pool.submit(dump, tb)) for tb in tables}
    fut_sim = {tb["name"]: (tb, pool.submit(sim, tb)) for tb in tables}
    behaviours, per_table, samples, edge_total = [], collections.Counter(), [], 0
    for name, (tb, f) in fut_dump.items():
        d = f.result()
        g = tlagraph.Graph.load(os.path.join(d.rundir, "graph.dot"))
        walks, left = g.edge_cover(rng)
        if left:
            raise vlib.Infra("edge cover incomplete (%s)" % name)
        edge_total += len(walks)
        bs = []
        for w in walks:
            steps = s_steps([dict(_LAST.findall(g.state(s["to"])["last"])) for s in w])
            if any(s["pc"] == "cut" for s in steps):
                continue      # beyond the hop bound of the model the real call keeps forwarding until its deadline
            bs.append(dict(beh(tb), steps=steps, tag=name))
        bs = vlib.sample(rng, bs, nsel)
        behaviours += bs
        per_table[name] += len(bs)
        samples.append({name: [[s["t"], s["a"], s["pc"]] for s in bs[0]["steps"]][:30]})
    for name, (tb, f) in fut_sim.items():
        hs = [s_steps(h) for h in f.result()]
        bs = [dict(beh(tb), steps=h, tag=name) for h in hs if not any(s["pc"] == "cut" for s in h)]
        if len(bs) < nsim // 8:
            raise vlib.Infra("simulation produced too few behaviours for %s (%d)" % (name, len(bs)))
        behaviours += bs
        per_table[name] += len(bs)
    # the counterexample of every single branch is replayed on the real code
    for d, (tbw, f) in fut_wit.items():
        r = f.result()
        if r.violated not in ("OneSingleton", "NoForeignRemove"):
            raise vlib.Infra("Singleton.tla with the branch %s no longer violates C36's invariants (stale Defects table?)" % d)
        wsteps = []
        for m in re.finditer(r'/\\ last = (\[.*?\])\n', r.out, re.S):
            last = dict(_LAST.findall(m.group(1)))
            if last.get("a") and last["a"] != "init":
                wsteps.append(last)
        if len(wsteps) < 6:
            raise vlib.Infra("could not read the counterexample of Singleton.tla branch %s" % d)
        behaviours.append(dict(beh(tbw), steps=s_steps(wsteps), tag="witness-" + d))
        per_table["witness-" + d] += 1
    bfile = ctx.tmp("behaviours.ndjson")
    vlib.write_ndjson(bfile, behaviours)
    ctx.log("behaviours: %d (edge-cover walks available %d) %s" % (len(behaviours), edge_total, dict(per_table)))

    trace = ctx.tmp("trace.ndjson")
    p = ctx.run([exe, "single-replay", bfile, trace], timeout=2400)
    rstats = json.loads(p.stdout.strip().splitlines()[-1])
    ctx.log("replay: %s" % rstats)
    etrace = ctx.tmp("explore.ndjson")
    pe = ctx.run([exe, "single-explore", str(200 if quick else 3000), str(ctx.seed), etrace], timeout=2400)
    estats = json.loads(pe.stdout.strip().splitlines()[-1])
    ctx.log("explore: %s" % estats)

    def monitor(path, label):
        r = ctx.tlc(SSPEC, "Mon_Singleton.cfg", module="Mon_Singleton", dfs=True, files={"trace.ndjson": path}, timeout=2400, heap="6g",
                    name="mon-" + label)
        n = sum(1 for _ in open(path))
        if r.depth != n + 1:
            raise vlib.Infra("monitor consumed %d of %d trace lines (%s)" % (r.depth - 1, n, label))
        mm = vlib.tuples(r.out, "MISMATCH")
        if len(mm) != r.out.count('"MISMATCH"'):
            raise vlib.Infra("unparsed MISMATCH lines in monitor output (%s)" % label)
        return [(int(m[1]), m[2], m[3]) for m in mm], n

    def conformance(rows, tb):
        sub = [r for a, b in split_behaviours(rows) if rows[a].get("tag", "") == tb["name"] for r in rows[a:b]]
        if not sub:
            return tb["name"], None, 0
        sub.append({"ev": "New", "id": "", "tag": "", "orgs": {}, "lead": {}})
        path = ctx.tmp("conf-%s.ndjson" % tb["name"])
        vlib.write_ndjson(path, sub)
        cfgname = "s_%s_trace.cfg" % tb["name"]
        pc = write(ctx, cfgname, scfg(tb, S_CODE_DEFECTS, invariants=(), view=False, spec="TSpec", faults=9))
        r = ctx.tlc(SSPEC, cfgname, module="Trace_Singleton", dfs=True, files={cfgname: pc, "trace.ndjson": path}, timeout=2400, heap="6g",
                    expect_fail=True, name=cfgname[:-4])
        if r.error:
            raise vlib.Infra("conformance spec error (%s): %s" % (tb["name"], r.error[:600]))
        return tb["name"], (None if r.depth == len(sub) + 1 else "rejected at line %d of %d: %s" % (r.depth, len(sub), json.dumps(sub[min(r.depth, len(sub)) - 1])[:300])), len(sub)

    rows = vlib.read_ndjson(trace)
    fut_mon = [pool.submit(monitor, trace, "replay"), pool.submit(monitor, etrace, "explore")]
    fut_conf = [pool.submit(conformance, rows, tb) for tb in tables]
    results = []
    events = 0
    for label, path, f in (("replay", trace, fut_mon[0]), ("explore", etrace, fut_mon[1])):
        mm, n = f.result()
        events += n
        results.append((label, path, mm))
    drift_conf = {}
    for f in fut_conf:
        name, d, nl = f.result()
        if d:
            drift_conf[name] = d
    for f in fut_design:
        f.result()
    drift_by = collections.Counter()
    for a, b in split_behaviours(rows):
        if any(r["ev"] == "drift" for r in rows[a:b]):
            drift_by[rows[a].get("tag", "")] += 1

    known_hits = collections.Counter()
    unknown = []
    harness_rows = []    # the driver's own bookkeeping disagrees with the monitor: never a verdict
    for label, path, mm in results:
        if not mm:
            continue
        trows = vlib.read_ndjson(path)
        spans = split_behaviours(trows)
        for (line, what, sid) in sorted(mm):
            a, b = next(((a, b) for a, b in spans if a < line <= b), (0, len(trows)))
            if "HARNESS" in str(what):
                # only a consequence when a genuine unexplained mismatch precedes it in the same history (judged on its own);
                # otherwise the infrastructure is at fault
                if not any(u[1] == path and a < u[2] < line for u in unknown):
                    harness_rows.append((label, line, what, sid))
                continue
            h = trows[a:b]
            # late events of an earlier history (a spawn single-flight that outlived its callers) do not belong to this one
            keep = [r for r in h if r.get("id", h[0]["id"]) == h[0]["id"] and (r["ev"] != "op" or r.get("key") in ("", h[0]["id"]))]
            e = trows[line - 1]
            cls = [c for c in classify_c36(keep, keep.index(e)) if ctx.is_known(c)] if e in keep else []
            if cls:
                for c in set(cls):
                    known_hits[c] += 1
                    ctx.report_known(c, ctx.is_known(c)["what"])
            else:
                unknown.append((label, path, line, what, h))

    def finish(violations=0):
        st, tr = ctx.states()
        cov = {"states": st, "transitions": tr, "traces_validated_against_impl": rstats["behaviours"] + estats["behaviours"],
               "samples": samples[:3], "evaluations": rstats["behaviours"] + estats["behaviours"],
               "distinct_nontrivial": len({json.dumps(b["steps"]) for b in behaviours}),
               "rule": "executions = puppet replays on 3 real actor systems of walks sampled from an edge cover of the state graphs of "
                       "Singleton.tla (code model; tables %s = caller origins, initial coordinator, new coordinator, view changes) and TLC "
                       "random walks, plus seeded random schedules over the real gates with random view changes; distinct_nontrivial = "
                       "distinct replayed step sequences (2-3 concurrent SpawnSingleton calls)" % ",".join(t["name"] for t in tables),
               "atomic_steps_replayed": rstats["steps"] + estats["steps"], "replay_drift": sum(v for k, v in drift_by.items() if not k.startswith("witness-")),
               "replay_drift_by_table": dict(drift_by), "replay_drift_at": rstats.get("drift_at"), "conformance_drift": drift_conf or None,
               "events_judged": events, "not_quiescent": rstats["not_quiescent"] + estats["not_quiescent"],
               "known_finding_hits": dict(known_hits), "code_defects_modelled": S_CODE_DEFECTS, "exhaustive": False}
        ctx.evidence("model_checking", cov,
                     ["one singleton name, no role; 3 nodes; 2-3 concurrent SpawnSingleton calls / relocation items (recreateSingletonFromWire, duplicates included); one leadership change propagating node by node; views without coordinator ([self] or peers without flag); <= 1 read-quorum failure of Members/ActorExists/GetActor",
                      "membership views are scripted per node through a fake olric client under goakt's real cluster engine (Members is real code)",
                      "RemoteSpawn is delivered in-process on the caller's goroutine to the target's real remoteSpawnHandler",
                      "running = between PreStart and PostStop of the singleton actor as reported by the actor itself; nobody stops singletons during a history",
                      "forwarding chains longer than 2 hops (mutually forwarding views) are cut in the model and not replayed"],
                     violations=violations)

    if unknown:
        label, path, line, what, h = unknown[0]
        snippet = ctx.tmp("violation.ndjson")
        vlib.write_ndjson(snippet, h)
        rp = ctx.save_replay("seed%d" % ctx.seed, snippet)
        finish(violations=len(unknown))
        raise vlib.Violation(pid, rp, "%s: %s (trace line %d of %s, singleton %s; %d unexplained mismatches)" %
                             (label, what, line, os.path.basename(path), h[0].get("id"), len(unknown)))
    if harness_rows:
        finish()
        raise vlib.Infra("harness bookkeeping disagrees with the monitor (%s, trace line %d, %s): %s" % harness_rows[0])
    if drift_conf:
        ctx.log("conformance drift (not a verdict): %s" % drift_conf)
    if drift_by:
        ctx.log("replay drift (not a verdict): %s of %d behaviours: %s" % (dict(drift_by), rstats["behaviours"], rstats.get("drift_at")))
    pool.shutdown()
    finish()
