"""C32 / C34 - relocation planner and membership event tracker.

C32 (relocation plan places every actor and grain of a departed node exactly once)
  spec -> code: TLC enumerates every small input of the planner functions (Gen_Plan over PlanCases:
  allocateActors, relocatableGrains+allocateGrains, reassignByRole, relocateShare with a scripted
  stub remoting client, chunk.Chunkify) and the Go driver adds seeded random large inputs; each is
  run on the REAL functions through the verif-tag shims (the placement order inside allocateActors
  comes from the hook reloc.assign).
  code -> spec: TLC judges every recorded (in, out) pair: Trace_PlanMon = the CONTRACT Valid<Op>
  (verdict), Trace_PlanConf = equality with the transcription of the algorithms (drift only).
  Design level: MC_Plan proves that the transcription satisfies the contract (every input, every
  map iteration order) and that broken plans are rejected.

C34 (membership events are emitted once and only after rebalancing settles)
  spec: Membership.tla transcribes the tracker's five handlers (incl. the overdue timer callback);
  MemberMon.tla is the property as an observer's monitor; MC_Membership composes them
  (Defects={} satisfies the property; the code as found deviates only by the recorded witnesses).
  spec -> code: every history of length D (BFS), TLC random walks and the TLC counterexample of the
  known finding are fed as real olric JSON payloads to the real handleClusterEvent.
  code -> spec: Trace_MembershipMon (verdict) on inputs + emitted events; Trace_Membership
  (conformance incl. the internal maps read through the shim)."""
import collections, json, os, re, threading
import vlib

PROPERTIES = ["C32", "C34"]
SPEC = "RelocMember"


class _Bg(threading.Thread):
    """Run fn in the background; .get() re-raises."""

    def __init__(self, fn):
        super().__init__(daemon=True)
        self.fn, self.res, self.exc = fn, None, None
        self.start()

    def run(self):
        try:
            self.res = self.fn()
        except BaseException as e:  # noqa
            self.exc = e

    def get(self):
        self.join()
        if self.exc:
            raise self.exc
        return self.res


def _tuples(out, tag, what):
    """PrintT tuples of a trace spec, robust against TLC's line wrapping; guarded against missed ones."""
    t = vlib.tuples(out, tag)
    if len(t) != out.count('"%s"' % tag):
        raise vlib.Infra("%s: parsed %d %s tuples but the TLC output mentions the tag %d times"
                         % (what, len(t), tag, out.count('"%s"' % tag)))
    return t


def run(ctx, pid):
    if pid == "C32":
        return run_c32(ctx)
    if pid == "C34":
        return run_c34(ctx)
    raise vlib.Infra("unknown property " + pid)


# ======================================================================== C32
def run_c32(ctx):
    pid, quick = "C32", ctx.quick
    # 1. design level (background): transcription satisfies the contract
    mc_bg = _Bg(lambda: ctx.tlc_must_hold(SPEC, "MC_Plan.cfg" if quick else "MC_Plan_t.cfg", module="MC_Plan",
                                          timeout=900 if quick else 5400, workers=2 if quick else 4))
    # 2. inputs: every small one from TLC + seeded random large ones
    gen = ctx.tlc(SPEC, "Gen_Plan.cfg" if quick else "Gen_Plan_t.cfg", module="Gen_Plan", deadlock_check=False,
                  timeout=900 if quick else 5400, workers=2)
    cases = vlib.parse_sim_behaviours(gen.out)
    by_op = collections.Counter(c["op"] for c in cases)
    if len(cases) < 10000 or any(by_op[o] == 0 for o in ("Actors", "Grains", "Reassign", "Share", "Chunk", "Derive")):
        raise vlib.Infra("case enumeration produced too little: %s" % dict(by_op))
    exe = ctx.build("relocmember")
    rnd_file = ctx.tmp("random-cases.ndjson")
    nrand = 150 if quick else 1500
    ctx.run([exe, "planrand", str(ctx.seed), str(nrand), rnd_file], timeout=300)
    rnd = vlib.read_ndjson(rnd_file)
    cfile = ctx.tmp("cases.ndjson")
    vlib.write_ndjson(cfile, cases + rnd)
    ctx.log("cases: %d enumerated by TLC %s + %d random large" % (len(cases), dict(by_op), len(rnd)))

    # 3. the real planner
    trace = ctx.tmp("trace.ndjson")
    p = ctx.run([exe, "plan", cfile, trace], timeout=900)
    stats = json.loads(p.stdout.strip().splitlines()[-1])
    nlines = stats["events"]
    if nlines != len(cases) + len(rnd):
        raise vlib.Infra("driver wrote %d lines for %d cases" % (nlines, len(cases) + len(rnd)))

    # 4. TLC judges: contract (verdict) and transcription (drift)
    conf_bg = _Bg(lambda: ctx.tlc(SPEC, "Trace_PlanConf.cfg", dfs=True, files={"trace.ndjson": trace},
                                  timeout=1800 if quick else 3000, heap="8g", expect_fail=True))
    mon = ctx.tlc(SPEC, "Trace_PlanMon.cfg", dfs=True, files={"trace.ndjson": trace}, timeout=1800 if quick else 3000, heap="8g")
    if mon.depth != nlines + 1:
        raise vlib.Infra("monitor did not consume the whole trace (%d of %d)" % (mon.depth - 1, nlines))
    mism = [(int(t[0]), str(t[1])) for t in _tuples(mon.out, "MISMATCH", "Trace_PlanMon")]
    conf = conf_bg.get()
    drift = None
    if conf.error:
        drift = "conformance spec could not evaluate the trace: " + conf.error[:300]
    elif conf.depth != nlines + 1:
        drift = "conformance spec stopped at line %d of %d" % (conf.depth, nlines)
    else:
        d = _tuples(conf.out, "DRIFT", "Trace_PlanConf")
        if d:
            drift = "%d lines differ from the transcription, first: line %s (%s)" % (len(d), d[0][0], d[0][1])
    mc = mc_bg.get()
    ctx.log("design: MC_Plan %d cases x orders, contract holds and rejects broken plans" % mc.distinct)

    rows = None
    allc = cases + rnd

    def nontrivial(c):
        if c["op"] == "Actors":
            return len(c["actors"]) >= 2 and len(c["peers"]) >= 1
        if c["op"] == "Grains":
            return len(c["grains"]) >= 2 and c["np"] >= 2
        if c["op"] == "Reassign":
            return sum(len(r["actors"]) for r in c["reqs"]) >= 2 and len(c["surv"]) >= 1
        if c["op"] == "Share":
            return len(c["peers"]) >= 2 and (len(c["actors"]) + len(c["grains"])) >= 2
        if c["op"] == "Derive":
            return len(c["actors"]) + len(c["grains"]) >= 2
        return len(c.get("items", [])) >= 2

    nt = len({json.dumps(c, sort_keys=True) for c in allc if nontrivial(c)})
    samples = [cases[0], cases[len(cases) // 3], cases[(2 * len(cases)) // 3], cases[-1]]
    small_rnd = [c for c in rnd if len(json.dumps(c)) < 1500]
    if small_rnd:
        samples.append(small_rnd[0])
    cov = {
        "states": ctx.states()[0], "transitions": max(1, ctx.states()[1]),
        "traces_validated_against_impl": nlines, "samples": samples,
        "evaluations": nlines, "distinct_nontrivial": nt,
        "rule": "every input of PlanCases (Gen_Plan cfg constants: peers, actors, base loads, grains, request shapes, unreachable "
                "survivors) enumerated by TLC, canonical up to the order of Go map entries, plus seeded random large inputs "
                "(up to 120 actors / 150 grains / 6 peers; shares of up to 3 batches of 500); non-trivial = at least two items "
                "and at least one peer",
        "exhaustive": True, "cases_by_op": dict(by_op), "random_cases": len(rnd),
        "design_cases": mc.distinct, "conformance_drift": drift, "monitor_mismatches": len(mism),
    }
    assumptions = [
        "planner functions are called through forwarding shims (actor/relocation_verif.go); the fan-out loop of relocate() that maps "
        "share i to peers[i-1] is part of the contract's reading of the output, not executed",
        "relocateShare runs on a worker without pid (no leader fallback, lazy-grain release skipped) with a stub remoting client "
        "whose failures are terminal errors (the retrier's real-time backoff is skipped)",
        "the filter that keeps non-relocatable and system actors out of the departed node's PeerState (preShutdown / "
        "deriveRelocationSetFromRegistry) is upstream of the planner and not covered; relocatableGrains (disabled grains) is",
    ]
    if mism:
        rows = vlib.read_ndjson(trace)
        line = int(mism[0][0])
        snippet = ctx.tmp("violation.ndjson")
        vlib.write_ndjson(snippet, [rows[int(m[0]) - 1] for m in mism[:20]])
        rp = ctx.save_replay("seed%d" % ctx.seed, snippet)
        ctx.evidence("model_checking", cov, assumptions, violations=len(mism))
        bad = rows[line - 1]
        raise vlib.Violation(pid, rp, "monitor: the real %s output violates the plan contract Valid%s (trace line %d; %d mismatches)\n in:  %s\n out: %s"
                             % (bad["op"], bad["op"], line, len(mism), json.dumps(bad["in"])[:600], json.dumps(bad["out"])[:600]))
    if drift:
        ctx.log("conformance drift (not a verdict): " + drift)
    ctx.evidence("model_checking", cov, assumptions)


# ======================================================================== C34
KNOWN_STALE = "StaleLeftEpoch"
KNOWN_LATE = "LateStartReassign"
SCENARIO_S = {  # StaleLeftEpoch: two successive departures, no duplicate, no reordering
    "chg": [{"kind": "left", "node": "p1"}, {"kind": "left", "node": "p2"}],
    "h": [{"op": "left", "n": "p1", "e": 1, "r": ""}, {"op": "start", "n": "p1", "e": 1, "r": "left"},
          {"op": "complete", "n": "", "e": 1, "r": ""}, {"op": "left", "n": "p2", "e": 2, "r": ""},
          {"op": "start", "n": "p2", "e": 2, "r": "left"}, {"op": "complete", "n": "", "e": 2, "r": ""}]}
SCENARIO_REWIND = {  # LateStartReassign: first-time starts out of order, start(2) then start(1) rewinds the latest epoch
    "chg": [{"kind": "left", "node": "p1"}, {"kind": "left", "node": "p2"}],
    "h": [{"op": "left", "n": "p1", "e": 1, "r": ""}, {"op": "left", "n": "p2", "e": 2, "r": ""},
          {"op": "start", "n": "p2", "e": 2, "r": "left"}, {"op": "start", "n": "p1", "e": 1, "r": "left"},
          {"op": "complete", "n": "", "e": 1, "r": ""}, {"op": "complete", "n": "", "e": 2, "r": ""}]}
SCENARIO_DUPSTART = {  # a redelivered start of a completed epoch must stay a no-op (base code: nothing is emitted early)
    "chg": [{"kind": "left", "node": "p1"}, {"kind": "left", "node": "p2"}],
    "h": [{"op": "left", "n": "p1", "e": 1, "r": ""}, {"op": "start", "n": "p1", "e": 1, "r": "left"},
          {"op": "complete", "n": "", "e": 1, "r": ""}, {"op": "start", "n": "p2", "e": 2, "r": "left"},
          {"op": "left", "n": "p2", "e": 2, "r": ""}, {"op": "start", "n": "p1", "e": 1, "r": "left"},
          {"op": "complete", "n": "", "e": 1, "r": ""}, {"op": "complete", "n": "", "e": 2, "r": ""}]}


def _tla_records(text):
    """[a |-> "x", b |-> 1, ...] -> dict (strings / ints / sets of strings only)."""
    d = {}
    for k, v in re.findall(r'(\w+) \|-> ("[^"]*"|\d+|\{[^}]*\})', text):
        if v.startswith('"'):
            d[k] = v[1:-1]
        elif v.startswith("{"):
            d[k] = re.findall(r'"([^"]*)"', v)
        else:
            d[k] = int(v)
    return d


def counterexample_behaviour(ce):
    """Turn the error trace of MC_Membership into a behaviour for the driver."""
    m = re.search(r"chg = <<(.*?)>>", ce, re.S)
    if not m:
        return None
    chg = [_tla_records(x) for x in re.findall(r"\[[^\]]*\]", m.group(1))]
    h = []
    for lm in re.findall(r"last = (\[[^\]]*\])", ce):
        r = _tla_records(lm)
        if r.get("op") and r["op"] != "init":
            h.append({"op": r["op"], "n": r.get("n", ""), "e": r.get("e", 0), "r": r.get("r", "")})
    if not h:
        return None
    return {"chg": [{"kind": c["kind"], "node": c["node"]} for c in chg], "h": h}


def run_c34(ctx):
    pid, quick = "C34", ctx.quick
    # 1. design level: the repaired design satisfies the property; the code as found deviates only by the known witnesses
    # (MC_Membership_t4.cfg, 4 epochs: 5 990 148 distinct states, NoBad holds, 27 min with 4 workers on the shared machine -
    #  run by hand, too large for the routine thorough tier)
    mc_bg = _Bg(lambda: ctx.tlc_must_hold(SPEC, "MC_Membership.cfg" if quick else "MC_Membership_t.cfg", module="MC_Membership",
                                          timeout=900 if quick else 3000, workers=2 if quick else 4))
    #    the witnesses of the two known findings as TLC counterexamples (one Defects branch each; workers=1: deterministic)
    witnesses = {}
    for fid, cfg in ((KNOWN_STALE, "MC_Membership_stale.cfg"), (KNOWN_LATE, "MC_Membership_late.cfg")):
        r = ctx.tlc(SPEC, cfg, module="MC_Membership", timeout=600, workers=1, expect_fail=True)
        if r.violated != "NoBad":
            raise vlib.Infra("%s: expected the model with this Defects branch to violate NoBad, got %s %s"
                             % (cfg, r.violated, (r.error or "")[:500]))
        witnesses[fid] = counterexample_behaviour(r.counterexample())
        if witnesses[fid] is None:
            raise vlib.Infra("could not parse the TLC counterexample of " + cfg)
    if not quick:
        ctx.tlc_must_hold(SPEC, "MC_Membership_real.cfg", module="MC_Membership", timeout=3000, workers=4)
        ctx.tlc_must_hold(SPEC, "MC_Membership_sticky.cfg", module="MC_Membership", timeout=3000, workers=4)

    # 2. behaviours
    exh_r = ctx.tlc(SPEC, "Gen_Membership.cfg" if quick else "Gen_Membership_t.cfg", module="Gen_Membership",
                    deadlock_check=False, timeout=900 if quick else 3000, workers=2)
    exh = vlib.parse_sim_behaviours(exh_r.out)
    sim_r = ctx.tlc(SPEC, "Sim_Membership.cfg" if quick else "Sim_Membership_t.cfg", module="Gen_Membership",
                    deadlock_check=False, simulate="num=%d" % (500 if quick else 6000), workers=1, timeout=900 if quick else 3000,
                    name="Sim_Membership")
    sim = vlib.parse_sim_behaviours(sim_r.out)
    #    edge cover: every (reachable tracker state, handler call) pair of the 2-peer / 2-epoch model, i.e. every
    #    duplicate or redelivered notification / start / complete in every state (also of completed epochs)
    cov_r = ctx.tlc(SPEC, "Cover_Membership.cfg", module="Gen_Membership", deadlock_check=False, timeout=900, workers=2)
    cover = vlib.parse_sim_behaviours(cov_r.out)
    if len(exh) < 1000 or len(sim) < 500 or len(cover) < 5000:
        raise vlib.Infra("behaviour generation produced too little (%d exhaustive, %d random, %d edge cover)" % (len(exh), len(sim), len(cover)))
    sim = sim[: (2000 if quick else 40000)]
    special = [witnesses[KNOWN_STALE], witnesses[KNOWN_LATE], SCENARIO_S, SCENARIO_REWIND, SCENARIO_DUPSTART]
    behaviours = special + cover + exh + sim
    bfile = ctx.tmp("behaviours.ndjson")
    vlib.write_ndjson(bfile, behaviours)
    ctx.log("behaviours: %d witnesses/scenarios + %d edge cover + %d exhaustive + %d random" % (len(special), len(cover), len(exh), len(sim)))

    # 3. the real tracker
    exe = ctx.build("relocmember")
    trace = ctx.tmp("trace.ndjson")
    p = ctx.run([exe, "member", bfile, trace], timeout=900)
    stats = json.loads(p.stdout.strip().splitlines()[-1])
    nlines = stats["events"]

    # 4. TLC judges (the trace is cut at behaviour boundaries into parts of at most PART lines)
    rows = vlib.read_ndjson(trace)
    PART = 250000
    parts, cur = [], []
    for i, r in enumerate(rows):
        if r["op"] == "New" and len(cur) >= PART:
            parts.append(cur)
            cur = []
        cur.append(i)
    parts.append(cur)
    mism, drift, off = [], None, 0
    diverged = {"A": [], "B": []}      # 1-based trace lines where the free-running model first differs, per Defects set
    for k, idx in enumerate(parts):
        pfile = trace
        if len(parts) > 1:
            pfile = ctx.tmp("trace-part%d.ndjson" % k)
            vlib.write_ndjson(pfile, [rows[i] for i in idx])
        n = len(idx)
        conf_bg = _Bg(lambda pf=pfile, kk=k: ctx.tlc(SPEC, "Trace_Membership.cfg", dfs=True, files={"trace.ndjson": pf},
                                                     timeout=1800 if quick else 3000, heap="12g", expect_fail=True,
                                                     name="Trace_Membership-%d" % kk))
        attr_bg = _Bg(lambda pf=pfile, kk=k: ctx.tlc(SPEC, "Trace_MembershipAttrA.cfg", module="Trace_MembershipAttr", dfs=True,
                                                     files={"trace.ndjson": pf}, timeout=1800 if quick else 3000, heap="12g",
                                                     name="Trace_MembershipAttrA-%d" % kk))
        mon = ctx.tlc(SPEC, "Trace_MembershipMon.cfg", dfs=True, files={"trace.ndjson": pfile}, timeout=1800 if quick else 3000,
                      heap="12g", name="Trace_MembershipMon-%d" % k)
        attrs = {"B": ctx.tlc(SPEC, "Trace_MembershipAttrB.cfg", module="Trace_MembershipAttr", dfs=True, files={"trace.ndjson": pfile},
                              timeout=1800 if quick else 3000, heap="12g", name="Trace_MembershipAttrB-%d" % k)}
        attrs["A"] = attr_bg.get()
        for key, ar in attrs.items():
            if ar.depth != n + 1:
                raise vlib.Infra("attribution spec %s did not consume the whole trace part %d (%d of %d)" % (key, k, ar.depth - 1, n))
            diverged[key] += [int(t[0]) + off for t in _tuples(ar.out, "DIVERGED", "Trace_MembershipAttr" + key)]
        if mon.depth != n + 1:
            raise vlib.Infra("monitor did not consume the whole trace part %d (%d of %d)" % (k, mon.depth - 1, n))
        mism += [(int(t[0]) + off, str(t[1]), str(t[2])) for t in _tuples(mon.out, "MISMATCH", "Trace_MembershipMon")]
        conf = conf_bg.get()
        if drift is None:
            if conf.error:
                drift = "conformance spec could not evaluate the trace: " + conf.error[:300]
            elif conf.violated:
                drift = "invariant %s violated on the real trace at line %d" % (conf.violated, conf.depth + off)
            elif conf.depth != n + 1:
                drift = "trace rejected at line %d of %d" % (conf.depth + off, nlines)
        off += n
    mc = mc_bg.get()
    ctx.log("design: MC_Membership %d distinct states, once/self/settled hold for Defects={}" % mc.distinct)

    codes = collections.Counter(m[1] for m in mism)
    # Attribution of EARLY_STALE verdicts (NodeLeft on the completion of a node-left epoch that began before the departure).
    # A verdict belongs to a known finding only if the model with that finding's Defects branch predicts exactly this
    # emission: the free-running transcription has not diverged from the real emissions up to and including this line.
    #   model A = {StaleLeftEpoch} (+ StickyLeftFilter)         -> StaleLeftEpoch
    #   model B = {StaleLeftEpoch, LateStartReassign} (+ ...)   -> LateStartReassign (needs the start-side branch)
    # Everything else - in particular an early emission the code as found would not make - is a violation.
    new_lines = [i + 1 for i, r in enumerate(rows) if r["op"] == "New"]      # 1-based

    def beh_start(line):
        import bisect
        return new_lines[bisect.bisect_right(new_lines, line) - 1]

    first_div = {"A": {}, "B": {}}
    for key in ("A", "B"):
        for dl in diverged[key]:
            first_div[key].setdefault(beh_start(dl), dl)
    attributed = {KNOWN_STALE: [], KNOWN_LATE: []}
    hard = [m for m in mism if m[1] != "EARLY_STALE"]
    for m in mism:
        if m[1] != "EARLY_STALE":
            continue
        bs = beh_start(m[0])
        if first_div["A"].get(bs, 1 << 60) > m[0]:
            fid = KNOWN_STALE
        elif first_div["B"].get(bs, 1 << 60) > m[0]:
            fid = KNOWN_LATE
        else:
            fid = None
        if fid and ctx.is_known(fid):
            attributed[fid].append(m)
        else:
            hard.append(m)
    hard.sort()
    for fid, text in ((KNOWN_STALE, "NodeLeft emitted on the completion of an epoch that the departure adopted in trackNodeLeftEvent "
                                    "although it began before the departure"),
                      (KNOWN_LATE, "NodeLeft emitted on the completion of an older epoch that processRebalanceStart assigned to the "
                                   "pending departure (starts taken in arrival order, every pending departure re-assigned)")):
        if attributed[fid]:
            ctx.report_known(fid, "%s (%d emissions in %d behaviours, first at trace line %d, node %s; each predicted by the model "
                                  "of this finding)" % (text, len(attributed[fid]), len(behaviours), attributed[fid][0][0], attributed[fid][0][2]))
    # the witnesses from the TLC counterexamples must reproduce on the real code while the findings are listed as known
    wit_reproduced = {}
    for j, fid in enumerate((KNOWN_STALE, KNOWN_LATE)):
        lo = new_lines[j]
        hi = new_lines[j + 1] if j + 1 < len(new_lines) else len(rows) + 1
        wit_reproduced[fid] = any(lo < m[0] < hi for m in attributed[fid])
    emitted = sum(len(r.get("em", [])) for r in rows)
    nontrivial = len({json.dumps(b, sort_keys=True) for b in behaviours
                      if len({s["op"] for s in b["h"]}) >= 3})
    with_events = 0
    cur = False
    for r in rows:
        if r["op"] == "New":
            with_events += 1 if cur else 0
            cur = False
        elif r.get("em"):
            cur = True
    with_events += 1 if cur else 0
    cov = {
        "states": ctx.states()[0], "transitions": ctx.states()[1],
        "traces_validated_against_impl": len(behaviours),
        "samples": [witnesses[KNOWN_STALE], witnesses[KNOWN_LATE], SCENARIO_DUPSTART, cover[len(cover) // 2], exh[len(exh) // 2], sim[0]],
        "evaluations": len(behaviours), "distinct_nontrivial": nontrivial,
        "rule": "every history of length D of handler calls (join/left notifications, rebalance start/complete, overdue timer) over "
                "every ground-truth change sequence (TLC BFS of Gen_Membership), an edge cover of the 2-peer/2-epoch model (every reachable "
                "tracker state x every handler call incl. redelivered starts/completes of finished epochs), TLC random walks of depth 12/16 over 2-3 peers and "
                "3-4 epochs with duplicates and reorderings, the TLC counterexamples of MC_Membership_stale / _late and three fixed "
                "scenarios; non-trivial = at least three different kinds of call",
        "exhaustive": True, "exhaustive_histories": len(exh), "random_walks": len(sim), "edge_cover_histories": len(cover),
        "early_stale_attribution": {k: len(v) for k, v in attributed.items()},
        "unexplained_steps": {"model_A": len(diverged["A"]), "model_B_code_as_found": len(diverged["B"])},
        "events_validated": nlines, "emitted_events": emitted, "behaviours_with_events": with_events,
        "monitor_verdicts": dict(codes), "conformance_drift": drift,
        "known_witness_reproduced_on_real_code": wit_reproduced,
    }
    assumptions = [
        "the tracker is built by cluster.New without starting olric (shim VerifNewTracker); payloads are the JSON texts olric publishes",
        "the 30s nodeLeftEmitTimeout timer is not waited for: its callback emitOverdueNodeLeft is invoked where the model fires it",
        "'covering epoch' is judged against ground truth: epoch numbers and notification timestamps are the change numbers of the "
        "generated membership history; 'opposite event' is read as the opposite notification or emitted event",
    ]
    if hard:
        line = hard[0][0]
        start = max(j for j in range(line) if rows[j]["op"] == "New")
        end = next((j for j in range(line, len(rows)) if rows[j]["op"] == "New"), len(rows))
        snippet = ctx.tmp("violation.ndjson")
        vlib.write_ndjson(snippet, rows[start:end])
        rp = ctx.save_replay("seed%d" % ctx.seed, snippet)
        ctx.evidence("model_checking", cov, assumptions, violations=len(hard))
        what = {"SELF": "an event names the local node", "DUPJOIN": "a second NodeJoined without an intervening departure",
                "DUPLEFT": "a second NodeLeft without an intervening arrival", "SPURIOUS": "NodeLeft without any departure notification",
                "EARLY": "NodeLeft emitted although no node-left rebalance epoch has completed and no timeout fired",
                "EARLY_STALE": "NodeLeft emitted on the completion of an epoch that began before the departure, at a step where "
                               "the model of the code as found (known findings included) emits nothing of the kind"}.get(hard[0][1], hard[0][1])
        raise vlib.Violation(pid, rp, "monitor: %s (%s, node %s, trace line %d; %d verdicts: %s)"
                             % (what, hard[0][1], hard[0][2], line, len(hard), dict(collections.Counter(m[1] for m in hard))))
    for fid, ok in wit_reproduced.items():
        if ctx.is_known(fid) and not ok:
            ctx.log("note: the witness of known finding %s no longer reproduces on this tree (finding may be repaired)" % fid)
    if drift:
        ctx.log("conformance drift (not a verdict): " + drift)
    ctx.evidence("model_checking", cov, assumptions)
