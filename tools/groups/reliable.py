"""C42 / C43 / C44 — reliable delivery (point-to-point and work-pulling).

spec -> code: the producer, consumer and work-pulling controllers are transcribed handler by
handler (specs/Reliable/RD*.tla) and composed with faulty channels (P2P.tla, WorkPull.tla). TLC checks
the designs exhaustively in small bounds (safety; C42/C44 also liveness under fairness) and generates
behaviours (every history up to a depth + random walks) that harness/cmd/reliable executes step by
step on the REAL controllers inside a real actor system: the tell-helper hook hands every controller
message to the harness, which plays the network (drop / duplicate / reorder as scripted), ticks are
injected, and after the script the run is drained without faults.  Free-running executions with real
timers and seeded random faults are recorded as well.
code -> spec: TLC judges the recorded executions: Mon_P2P / Mon_WP (observable contract; decides
VIOLATION) and Trace_P2P / Trace_WP (every handled message must map the logged pre-state to the logged
post-state and sends through the transcribed handler; rejection = drift)."""
import json, os, re, threading
import vlib

PROPERTIES = ["C42", "C43", "C44"]
SPEC = "Reliable"

P2P_CONST = """  W = %(W)d
  N = %(N)d%(ChunksLine)s
  MaxWin = 10000
  F = %(F)d
  TP = %(TP)d
  TC = %(TC)d
  TG = %(TG)d
  Orders = %(Orders)s
  QuietTicks = FALSE
  Defects = {}
"""
WP_CONST = """  W = %(W)d
  N = %(N)d
  MaxWin = 10000
  Workers = %(Workers)s
  Initial <- %(Initial)s
  Leavers = %(Leavers)s
  F = %(F)d
  TP = %(TP)d
  TC = %(TC)d
  TG = %(TG)d
  QuietTicks = FALSE
"""


class P(dict):
    """Constants of a P2P configuration; Chunks (a name defined in MC_P2PCh / Gen_P2PCh) switches chunking on."""
    def __missing__(self, k):
        if k == "ChunksLine":
            return ("\n  Chunks <- %s" % self["Chunks"]) if self.get("Chunks") else ""
        raise KeyError(k)


def write_cfg(ctx, name, text):
    p = ctx.tmp(name)
    with open(p, "w") as f:
        f.write(text)
    return p


def gen(ctx, module, const_tpl, params, depth, simulate=None, timeout=600, tag="", cap=None):
    """Run the behaviour generator; returns the list of (distinct) behaviours."""
    # the design invariants are checked along the generated behaviours too (larger constants than the exhaustive runs)
    inv = ("INVARIANTS JobConservation ConfirmedOnce NoFailure Bindings SubFlows\n" if module == "Gen_WP" else
           "INVARIANTS InFlightIsNext Watermarks NoFailure ConfirmedOnce DemandRespected BufferInWindow\n")
    cfg = ("SPECIFICATION GSpec\nCONSTANTS\n" + const_tpl % P(params) + "  Depth = %d\n  Dice = %d\nCONSTRAINT Emit\n"
           % (depth, 3 if simulate else 1)) + inv
    name = "%s_%s.cfg" % (module, tag)
    path = write_cfg(ctx, name, cfg)
    r = ctx.tlc(SPEC, name, module=module, simulate=simulate, depth=(depth + 5 if simulate else None), deadlock_check=False,
                timeout=timeout, workers=4, files={name: path}, name="%s-%s" % (module, tag), heap="4g")
    if r.violated and r.violated != "deadlock":
        raise vlib.Infra("design-level check failed while generating behaviours (%s, %s): %s violated\n%s"
                         % (module, tag, r.violated, r.counterexample()[:3000]))
    out, seen = [], set()
    for b in vlib.parse_sim_behaviours(r.out):
        key = json.dumps([[s["a"], s.get("w", ""), s["m"]] for s in b], sort_keys=True)
        if key not in seen:
            seen.add(key)
            out.append(b)
    if cap and len(out) > cap:
        out = ctx.rng.sample(out, cap)
    return out


class Background:
    """Design-level TLC obligations run next to behaviour generation."""
    def __init__(self, fn):
        self.err, self.res = None, None
        def work():
            try:
                self.res = fn()
            except BaseException as e:   # re-raised in join
                self.err = e
        self.t = threading.Thread(target=work)
        self.t.start()

    def join(self):
        self.t.join()
        if self.err:
            raise self.err
        return self.res


W3 = '{"w1", "w2", "w3"}'
W2 = '{"w1", "w2"}'


def judge(ctx, kind, trace, nlines, W, tag, wset=W3):
    """Monitor (verdict) + conformance (drift) on one recorded trace."""
    mon_mod, tr_mod = {"p2p": ("Mon_P2P", "Trace_P2P"), "p2pch": ("Mon_P2PCh", "Trace_P2PCh"), "wp": ("Mon_WP", "Trace_WP")}[kind]
    workers = "  Workers = %s\n" % wset
    mon_cfg = "SPECIFICATION Spec\nCONSTANTS\n" + ("  W = %d\n" % W if kind != "wp" else workers) + "CHECK_DEADLOCK FALSE\n"
    tr_cfg = ("SPECIFICATION TSpec\nCONSTANTS\n  W = %d\n  MaxWin = 10000\n" % W + (workers if kind == "wp" else "  Defects = {}\n")
              + "CHECK_DEADLOCK FALSE\n")
    mname, tname = "%s_%s.cfg" % (mon_mod, tag), "%s_%s.cfg" % (tr_mod, tag)
    mfiles = {"trace.ndjson": trace, mname: write_cfg(ctx, mname, mon_cfg)}
    tfiles = {"trace.ndjson": trace, tname: write_cfg(ctx, tname, tr_cfg)}
    bg = Background(lambda: ctx.tlc(SPEC, tname, module=tr_mod, dfs=True, timeout=1500, heap="8g", expect_fail=True,
                                    files=tfiles, name="conf-" + tag))
    try:
        mon = ctx.tlc(SPEC, mname, module=mon_mod, dfs=True, timeout=1500, heap="8g", files=mfiles, name="mon-" + tag)
    finally:
        bg.t.join()
    conf = bg.join()
    if mon.depth != nlines + 1:
        raise vlib.Infra("monitor did not consume the whole trace %s (%d of %d lines)" % (tag, mon.depth - 1, nlines))
    tup = vlib.tuples(mon.out, "MISMATCH")
    if len(tup) != mon.out.count('"MISMATCH"') or any(len(t) != 5 or not isinstance(t[0], int) for t in tup):
        raise vlib.Infra("cannot parse the monitor's MISMATCH output of trace %s (%d tuples, %d tags)"
                         % (tag, len(tup), mon.out.count('"MISMATCH"')))
    mism = [(t[0], t[1], t[2], str(t[3]), str(t[4])) for t in tup]
    drift = None
    if conf.depth != nlines + 1:
        dt = vlib.tuples(conf.out, "DRIFT")
        drift = "%s: trace rejected at line %d of %d%s" % (tag, conf.depth, nlines, (" (handler of %s)" % dt[0][1]) if dt and len(dt[0]) > 1 else "")
        if conf.error and "DRIFT" not in conf.out:
            drift += " [TLC: %s]" % conf.error[:200]
    return mism, drift


def cut_flow(rows, line):
    """The recorded flow (from its "new" line to its "fin" line) containing 1-based line number `line`."""
    i = min(max(line - 1, 0), len(rows) - 1)
    start = max(j for j in range(i + 1) if rows[j].get("e") == "new")
    end = next((j for j in range(i, len(rows)) if rows[j].get("e") == "fin"), len(rows) - 1)
    return rows[start:end + 1]


def brief(b, wp=False):
    return [[s["a"]] + ([s.get("w", "")] if wp else []) + [s["m"].get("t", "")] + [s["m"][k] for k in ("seq", "n", "conf", "upTo", "tok") if k in s["m"]]
            for s in b]


def nontrivial(b):
    acts = [s["a"] for s in b]
    faulty = any(a in ("Drop", "Dup", "Leave") for a in acts)
    delivered = any(o["m"].get("t") == "Delivery" for s in b for o in s.get("out", []))
    return faulty and delivered


def design_p2p(ctx, pid):
    quick = ctx.quick
    out = {}
    mc = dict(W=2, N=2, F=1, TP=0, TC=1, TG=0, Orders='{"pc", "cp"}') if quick else dict(W=2, N=3, F=1, TP=0, TC=1, TG=1, Orders='{"pc", "cp"}')
    props = ("VIEW View\nINVARIANTS InFlightIsNext Watermarks NoFailure ConfirmedOnce DemandRespected BufferInWindow\n"
             "PROPERTIES DeliveryOrder ConfirmStepwise EmitUnderDemand NeverBufFull\n")
    cfg = "SPECIFICATION Spec\nCONSTANTS\n" + P2P_CONST % P(mc) + props
    r = ctx.tlc_must_hold(SPEC, "MC_P2P_run.cfg", module="MC_P2P", deadlock_check=False, timeout=2400, workers=4 if quick else 8,
                          files={"MC_P2P_run.cfg": write_cfg(ctx, "MC_P2P_run.cfg", cfg)}, name="mc-p2p", heap="12g")
    out["mc"] = dict(constants=mc, distinct=r.distinct, generated=r.generated, depth=r.depth)
    ctx.log("design P2P: %d distinct states, all invariants hold" % r.distinct)
    # chunking on (second configuration of DESIGN.md C42/C43)
    ch = (dict(W=2, N=2, Chunks="Ch21", F=1, TP=0, TC=1, TG=0, Orders='{"pc"}') if quick
          else dict(W=2, N=3, Chunks="Ch212", F=1, TP=0, TC=1, TG=0, Orders='{"pc", "cp"}'))
    cfg = "SPECIFICATION Spec\nCONSTANTS\n" + P2P_CONST % P(ch) + props
    r = ctx.tlc_must_hold(SPEC, "MC_P2PCh_run.cfg", module="MC_P2PCh", deadlock_check=False, timeout=3000, workers=4 if quick else 8,
                          files={"MC_P2PCh_run.cfg": write_cfg(ctx, "MC_P2PCh_run.cfg", cfg)}, name="mc-p2pch", heap="12g")
    out["mc_chunking"] = dict(constants=ch, distinct=r.distinct, generated=r.generated, depth=r.depth)
    ctx.log("design P2P with chunking: %d distinct states, all invariants hold" % r.distinct)
    if not quick or pid == "C43":
        # the repaired defect must still be exhibited by its Defects branch (otherwise the finding / the model is stale)
        d = dict(W=2, N=3, Chunks="Ch212", F=0, TP=0, TC=1, TG=0, Orders='{"pc"}')
        cfg = ("SPECIFICATION Spec\nCONSTANTS\n" + (P2P_CONST % P(d)).replace("Defects = {}", 'Defects = {"RegisterRaisesDemand"}')
               + "VIEW View\nINVARIANTS DemandRespected\n")
        r = ctx.tlc(SPEC, "MC_P2PCh_defect.cfg", module="MC_P2PCh", deadlock_check=False, timeout=1500, workers=4, expect_fail=True,
                    files={"MC_P2PCh_defect.cfg": write_cfg(ctx, "MC_P2PCh_defect.cfg", cfg)}, name="mc-p2pch-defect", heap="8g")
        if r.violated != "DemandRespected":
            raise vlib.Infra("Defects={RegisterRaisesDemand} no longer violates DemandRespected (stale finding or model): %s" % r.violated)
        out["finding_RegisterRaisesDemand"] = dict(constants=d, violated=r.violated, depth=r.depth, generated=r.generated)
        ctx.log("design: the Defects branch RegisterRaisesDemand (goakt before the fix) violates DemandRespected at depth %d" % r.depth)
    if pid == "C42":
        lv = dict(W=2, N=2, F=1, TP=1000, TC=1000, TG=1000, Orders='{"pc", "cp"}') if quick else dict(W=2, N=3, F=2, TP=1000, TC=1000, TG=1000, Orders='{"pc", "cp"}')
        cfg = ("SPECIFICATION LiveSpec\nCONSTANTS\n" + (P2P_CONST % P(lv)).replace("QuietTicks = FALSE", "QuietTicks = TRUE") +
               "VIEW LiveView\nINVARIANTS InFlightIsNext Watermarks NoFailure\nPROPERTIES EventuallyAllConfirmed\n")
        r = ctx.tlc_must_hold(SPEC, "Live_P2P_run.cfg", module="MC_P2P", deadlock_check=False, timeout=2400, workers=4,
                              files={"Live_P2P_run.cfg": write_cfg(ctx, "Live_P2P_run.cfg", cfg)}, name="live-p2p", heap="12g")
        out["liveness"] = dict(constants=lv, distinct=r.distinct)
        ctx.log("design P2P liveness: %d distinct states, every produced message eventually confirmed" % r.distinct)
        lc = dict(W=2, N=2, Chunks="Ch21", F=1, TP=0, TC=0, TG=0, Orders='{"pc"}') if quick else dict(W=2, N=3, Chunks="Ch212", F=1, TP=0, TC=0, TG=0, Orders='{"pc", "cp"}')
        cfg = ("SPECIFICATION LiveSpec\nCONSTANTS\n" + (P2P_CONST % P(lc)).replace("QuietTicks = FALSE", "QuietTicks = TRUE") +
               "VIEW LiveView\nINVARIANTS InFlightIsNext Watermarks NoFailure\nPROPERTIES EventuallyAllConfirmed\n")
        r = ctx.tlc_must_hold(SPEC, "Live_P2PCh_run.cfg", module="MC_P2PCh", deadlock_check=False, timeout=2400, workers=4,
                              files={"Live_P2PCh_run.cfg": write_cfg(ctx, "Live_P2PCh_run.cfg", cfg)}, name="live-p2pch", heap="12g")
        out["liveness_chunking"] = dict(constants=lc, distinct=r.distinct)
        ctx.log("design P2P liveness with chunking: %d distinct states" % r.distinct)
    return out


def design_wp(ctx, pid):
    quick = ctx.quick
    out = {}
    mc = dict(W=1, N=2, F=1, TP=0, TC=1, TG=0, Initial="Init1", Leavers='{"w1"}') if quick else dict(W=2, N=2, F=1, TP=0, TC=1, TG=0, Initial="Init1", Leavers='{"w1"}')
    cfg = ("SPECIFICATION Spec\nCONSTANTS\n" + WP_CONST % dict(Workers=W2, **mc) + "VIEW View\n"
           "INVARIANTS JobConservation ConfirmedOnce NoFailure Bindings SubFlows\nPROPERTIES NeverIllegal DeliveryOrder\n")
    r = ctx.tlc_must_hold(SPEC, "MC_WP_run.cfg", module="MC_WorkPull", deadlock_check=False, timeout=2400, workers=4 if quick else 8,
                          files={"MC_WP_run.cfg": write_cfg(ctx, "MC_WP_run.cfg", cfg)}, name="mc-wp", heap="12g")
    out["mc"] = dict(constants=mc, distinct=r.distinct, generated=r.generated, depth=r.depth)
    ctx.log("design WorkPull: %d distinct states, all invariants hold" % r.distinct)
    lv = dict(W=1, N=2, F=1, TP=1000, TC=1000, TG=1000, Initial="Init1", Leavers='{"w1"}') if quick else dict(W=2, N=2, F=1, TP=1000, TC=1000, TG=1000, Initial="Init1", Leavers='{"w1"}')
    cfg = ("SPECIFICATION LiveSpec\nCONSTANTS\n" + (WP_CONST % dict(Workers=W2, **lv)).replace("QuietTicks = FALSE", "QuietTicks = TRUE") +
           "VIEW LiveView\nINVARIANTS JobConservation NoFailure\nPROPERTIES EventuallyAllDone\n")
    r = ctx.tlc_must_hold(SPEC, "Live_WP_run.cfg", module="MC_WorkPull", deadlock_check=False, timeout=2400, workers=4,
                          files={"Live_WP_run.cfg": write_cfg(ctx, "Live_WP_run.cfg", cfg)}, name="live-wp", heap="12g")
    out["liveness"] = dict(constants=lv, distinct=r.distinct)
    ctx.log("design WorkPull liveness: %d distinct states, every job eventually confirmed while a worker stays" % r.distinct)
    return out


def run(ctx, pid):
    kind = "wp" if pid == "C44" else "p2p"
    quick = ctx.quick
    design = Background(lambda: (design_wp if kind == "wp" else design_p2p)(ctx, pid))
    try:
        plans = plan(ctx, kind)
        exe = ctx.build("reliable")
        results, all_mism, drifts, samples = [], [], [], []
        n_beh = n_free = n_nontrivial = events = 0
        seen = set()
        for p in plans:
            W, tag = p["W"], p["tag"]
            wset = p.get("workers", W3)
            pkind = p.get("kind", kind)
            env = {"VERIF_WORKERS": ",".join(re.findall(r"w\d", wset)), "VERIF_CHUNKS": p.get("chunks", "")}
            trace = ctx.tmp("trace-%s.ndjson" % tag)
            open(trace, "w").close()
            stats = {"replay": []}
            for gi, (N, behaviours) in enumerate(p["groups"]):
                bfile = ctx.tmp("behaviours-%s-%d.ndjson" % (tag, gi))
                part = ctx.tmp("part-%s-%d.ndjson" % (tag, gi))
                vlib.write_ndjson(bfile, behaviours)
                pr = ctx.run([exe, pkind + "-replay", bfile, part, str(W), str(N)], timeout=900, env=env)
                st = json.loads(pr.stdout.strip().splitlines()[-1])
                st["N"] = N
                stats["replay"].append(st)
                with open(trace, "a") as out, open(part) as inp:
                    out.write(inp.read())
                n_beh += len(behaviours)
                for b in behaviours:
                    key = json.dumps(brief(b, kind == "wp"))
                    if key not in seen:
                        seen.add(key)
                        if nontrivial(b):
                            n_nontrivial += 1
                samples.append({"W": W, "N": N, "behaviour": brief(behaviours[len(behaviours) // 2], kind == "wp")})
            if p["free_runs"]:
                ftrace = ctx.tmp("free-%s.ndjson" % tag)
                pr = ctx.run([exe, pkind + "-free", ftrace, str(W), str(p["free_n"]), str(ctx.seed * 1000 + W), str(p["free_runs"])], timeout=900, env=env)
                stats["free"] = json.loads(pr.stdout.strip().splitlines()[-1])
                n_free += p["free_runs"]
                if stats["free"].get("incomplete"):
                    ctx.log("note: %d of %d free runs (%s) did not finish inside their wall-clock limit (inconclusive, not a verdict)"
                            % (stats["free"]["incomplete"], p["free_runs"], tag))
                with open(trace, "a") as out, open(ftrace) as inp:
                    out.write(inp.read())
            rows = vlib.read_ndjson(trace)
            events += len(rows)
            mism, drift = judge(ctx, pkind, trace, len(rows), W, tag, wset)
            stats["monitor_mismatches"] = len(mism)
            stats["conformance_drift"] = drift
            results.append({"W": W, **stats})
            if drift:
                drifts.append(drift)
            for rp in stats["replay"]:
                if rp.get("pred_mismatch") or rp.get("unmatched_steps"):
                    drifts.append("%s: %d model predictions differ from the real state, %d steps not executable; first: %s"
                                  % (tag, rp.get("pred_mismatch", 0), rp.get("unmatched_steps", 0), rp.get("first_pred_mismatch", "")))
            for m in mism:
                all_mism.append((m, rows, tag))
        dres = design.join()
    except BaseException:
        design.t.join()
        raise
    mine = [x for x in all_mism if x[0][1] == pid]
    cov = {
        "states": ctx.states()[0], "transitions": ctx.states()[1],
        "traces_validated_against_impl": n_beh + n_free,
        "samples": samples[:3],
        "evaluations": n_beh + n_free, "distinct_nontrivial": n_nontrivial,
        "rule": "behaviours = every TLC history of the stated depth (BFS over Gen_*) + TLC random walks (seeded), each executed step by step on the "
                "real controllers and then drained without faults; free runs = real timers + seeded random drop/dup/delay. distinct = different "
                "(action, message) sequences; non-trivial = contains a Drop/Dup (or a worker Leave) and at least one Delivery to a consumer "
                "(counted over scripted behaviours only)",
        "scripted_behaviours": n_beh, "free_runs": n_free, "events_validated": events,
        "design": dres, "runs": results, "conformance_drift": drifts or None,
        "monitor_mismatches_all_properties": len(all_mism), "exhaustive": False,
    }
    assumptions = [
        "network faults are injected at the controllers' tell helpers (verifhook.Fault): the harness owns the transport of every controller "
        "message; controller<->endpoint legs are reliable FIFO; endpoints are harness actors that follow the documented contract",
        "one producer-controller session (no controller restart, as the properties scope it); volatile path (no durable queue); whole messages (no chunking)",
        "scripted mode: timers are injected (real interval 1h) and the gap-request rate limit is expired through a verif-tag shim; "
        "endpoint reactions are immediate (partial-order reduction argued in P2P.tla)",
        "liveness (C42/C44): TLC under weak/strong fairness with timers firing only at quiescence; on the real code: deterministic fault-free drain "
        "after every scripted behaviour must reach full confirmation",
    ]
    if mine:
        (line, _, what, x, y), rows, tag = mine[0]
        flow = cut_flow(rows, line)
        snippet = ctx.tmp("violation-%s.ndjson" % pid)
        vlib.write_ndjson(snippet, flow)
        rp = ctx.save_replay("seed%d-%s" % (ctx.seed, tag), snippet)
        ctx.evidence("model_checking", cov, assumptions, violations=len(mine))
        raise vlib.Violation(pid, rp, "monitor (%s, trace %s line %d): %s  [%s / %s]; %d mismatching events for %s"
                             % (pid, tag, line, what, x.strip(), y.strip(), len(mine), pid))
    for d in drifts:
        ctx.log("conformance drift (not a verdict): " + d)
    other = [x for x in all_mism if x[0][1] != pid]
    if other:
        ctx.log("note: %d monitor mismatches belong to another property of this group (%s)" % (len(other), other[0][0][1]))
    ctx.evidence("model_checking", cov, assumptions)


def plan(ctx, kind):
    """Which behaviours to generate and replay, per window size."""
    quick = ctx.quick
    plans = []
    other = 1 if ctx.seed % 2 else 3          # the second window size alternates with the seed in the quick tier
    if kind == "p2p":
        small = dict(N=3, F=1, TP=0, TC=1, TG=0, Orders='{"pc"}')
        walk = dict(N=4, F=2, TP=2, TC=6, TG=1, Orders='{"pc", "cp"}')
        bfs = gen(ctx, "Gen_P2P", P2P_CONST, dict(W=2, **small), 8 if quick else 10, tag="bfs-w2", timeout=1500)
        sim = {2: gen(ctx, "Gen_P2P", P2P_CONST, dict(W=2, **walk), 30, simulate="num=%d" % (40 if quick else 300), tag="sim-w2",
                      timeout=1500, cap=220 if quick else 1500)}
        for W in ([other] if quick else [1, 3]):
            sim[W] = gen(ctx, "Gen_P2P", P2P_CONST, dict(W=W, **walk), 30, simulate="num=%d" % (25 if quick else 200),
                         tag="sim-w%d" % W, timeout=1500, cap=120 if quick else 1000)
        if len(bfs) < 300 or any(len(v) < 30 for v in sim.values()):
            raise vlib.Infra("behaviour generation produced too little (%d exhaustive, %s random)" % (len(bfs), {k: len(v) for k, v in sim.items()}))
        ctx.log("behaviours: %d exhaustive (W=2, N=3), random walks %s (N=4)" % (len(bfs), {k: len(v) for k, v in sim.items()}))
        for W, b in sim.items():
            plans.append(dict(W=W, tag="w%d" % W, groups=([(3, bfs)] if W == 2 else []) + [(4, b)],
                              free_runs=(15 if quick else 100), free_n=3 + 2 * W))
        # chunking on: message k needs Chunks[k] chunks of 1024 bytes (real payloads of that size)
        chunked = [("Ch212", 2, "2,1,2"), ("Ch132", 3, "1,3,2")]
        for name, W, pattern in ([chunked[ctx.seed % 2]] if quick else chunked + [("Ch2132", 3, "2,1,3,2")]):
            n = len(pattern.split(","))
            b = gen(ctx, "Gen_P2PCh", P2P_CONST, dict(W=W, N=n, Chunks=name, F=2, TP=2, TC=6, TG=1, Orders='{"pc", "cp"}'), 34,
                    simulate="num=%d" % (25 if quick else 200), tag="sim-%s" % name, timeout=1500, cap=110 if quick else 1000)
            if len(b) < 30:
                raise vlib.Infra("behaviour generation produced too little for %s (%d)" % (name, len(b)))
            ctx.log("behaviours with chunking %s (W=%d): %d random walks" % (pattern, W, len(b)))
            plans.append(dict(W=W, tag=name.lower(), kind="p2pch", chunks=pattern, groups=[(n, b)], free_runs=(8 if quick else 60), free_n=n))
    else:
        small = dict(N=2, F=1, TP=0, TC=1, TG=0, Initial="Init1", Leavers='{"w1"}', Workers=W2)
        walk = dict(N=4, F=2, TP=2, TC=6, TG=1, Initial="Init2", Leavers='{"w1", "w2"}', Workers=W3)
        walk1 = dict(N=4, F=2, TP=2, TC=6, TG=1, Initial="Init1", Leavers='{"w1", "w2"}', Workers=W3)
        bfs = gen(ctx, "Gen_WP", WP_CONST, dict(W=1, **small), 5 if quick else 6, tag="bfs-w1", timeout=1500)
        sim = {2: gen(ctx, "Gen_WP", WP_CONST, dict(W=2, **walk), 36, simulate="num=%d" % (40 if quick else 300), tag="sim-w2",
                      timeout=1500, cap=200 if quick else 1500)}
        for W in ([other] if quick else [1, 3]):
            sim[W] = gen(ctx, "Gen_WP", WP_CONST, dict(W=W, **walk1), 34, simulate="num=%d" % (25 if quick else 200),
                         tag="sim-w%d" % W, timeout=1500, cap=100 if quick else 1000)
        if len(bfs) < 200 or any(len(v) < 30 for v in sim.values()):
            raise vlib.Infra("behaviour generation produced too little (%d exhaustive, %s random)" % (len(bfs), {k: len(v) for k, v in sim.items()}))
        ctx.log("behaviours: %d exhaustive (W=1, N=2, two workers), random walks %s (N=4, three workers)" % (len(bfs), {k: len(v) for k, v in sim.items()}))
        for W, b in sim.items():
            plans.append(dict(W=W, tag="w%d" % W, groups=[(4, b)], free_runs=(12 if quick else 80), free_n=3 + 2 * W))
        plans.append(dict(W=1, tag="bfs", groups=[(2, bfs)], free_runs=0, free_n=0, workers=W2))
    return plans
