"""addrcodec -- C26 (actor addresses survive their text form) and C37 (spawn configuration
survives the wire).  Both are transcribe-and-cover checks:

  spec -> code   TLC enumerates a structured domain from the TLA+ specification (C26: addresses
                 and token strings, specs/Addr; C37: the product of spawn-configuration choices,
                 specs/SpawnConfig) while checking the design-level theorems on its transcription;
                 the Go driver (harness/cmd/addrcodec) executes the REAL goakt functions on every
                 enumerated case and records (input, real outputs) as NDJSON.
  code -> spec   TLC judges the recording twice: the property monitor (Trace_*Abs: contract only,
                 decides VIOLATION) and the conformance spec (Trace_*: the transcription must
                 predict every recorded real output; a difference is drift, never a verdict).
"""
import json, os, re, threading
import vlib

PROPERTIES = ["C26", "C37"]


def _cases(ctx, spec, cfg, module, timeout, workers=None):
    r = ctx.tlc_must_hold(spec, cfg, module=module, deadlock_check=False, timeout=timeout, workers=workers)
    cases = vlib.parse_sim_behaviours(r.out, marker="CASE")
    return cases, r


def _marks(out, marker):
    """<<marker, line, clause>> tuples printed by the trace specs (whitespace-robust, with a completeness guard)."""
    ts = vlib.tuples(out, marker)
    if len(ts) != out.count('"%s"' % marker) or any(len(t) != 2 or not isinstance(t[0], int) for t in ts):
        raise vlib.Infra("could not parse every %s tuple printed by TLC (%d parsed, %d printed)" % (marker, len(ts), out.count('"%s"' % marker)))
    return [(t[0], t[1]) for t in ts]


def _judge(ctx, spec, trace, nlines, abs_cfg, conf_cfg, timeout, conf_module=None):
    """Monitor and conformance read the same recording; they are independent, so they run side by side."""
    res = {}

    def go(name, **kw):
        try:
            res[name] = ctx.tlc(spec, dfs=True, files={"trace.ndjson": trace}, timeout=timeout, heap="12g", **kw)
        except Exception as e:       # re-raised in the main thread
            res[name] = e
    t = threading.Thread(target=go, args=("conf",), kwargs=dict(cfg=conf_cfg, module=conf_module, expect_fail=True))
    t.start()
    go("mon", cfg=abs_cfg)
    t.join()
    mon, conf = res["mon"], res["conf"]
    if isinstance(mon, Exception):
        raise mon
    if isinstance(conf, Exception):
        if isinstance(conf, vlib.Infra):
            raise conf
        raise vlib.Infra("conformance run failed: %r" % (conf,))
    if mon.depth != nlines + 1:
        raise vlib.Infra("monitor did not consume the whole trace (%d of %d)" % (mon.depth - 1, nlines))
    drift = _marks(conf.out, "DRIFT")
    drift_note = None
    if conf.error or conf.violated:
        drift_note = "conformance spec stopped: %s" % (conf.violated or conf.error[:300])
    elif conf.depth != nlines + 1:
        drift_note = "conformance spec consumed %d of %d lines" % (conf.depth - 1, nlines)
    elif drift:
        drift_note = "%d recorded results differ from the transcription, first: line %d %s" % (len(drift), drift[0][0], drift[0][1])
    return _marks(mon.out, "MISMATCH"), drift, drift_note


# ------------------------------------------------------------------------------------------- C26
def run_c26(ctx, pid):
    spec = "Addr"
    quick = ctx.quick
    # 0. the model exhibits the defect the repair removed (keeps the Defects branch honest)
    d = ctx.tlc(spec, "MC_Addr_defect.cfg", module="MC_Addr", deadlock_check=False, timeout=600, expect_fail=True)
    if d.violated != "InvRoundTrip":
        raise vlib.Infra("Defects={FirstColonCut} should violate InvRoundTrip in the model, got %r" % (d.violated,))
    # 1. design-level theorems on the transcription + case enumeration, in one exhaustive TLC run
    cases, mc = _cases(ctx, spec, "MC_Addr.cfg" if quick else "MC_Addr_t.cfg", "MC_Addr", 600 if quick else 2400,
                       workers=4 if quick else 6)
    n_addr = sum(1 for c in cases if c["kind"] == "addr")
    n_raw = len(cases) - n_addr
    if len(cases) != mc.distinct - 1 or n_addr < 500 or n_raw < 10000:
        raise vlib.Infra("case enumeration incomplete: %d cases (%d addr, %d raw) for %d states" % (len(cases), n_addr, n_raw, mc.distinct))
    ctx.rng.shuffle(cases)          # order must not matter; the seed varies it
    cfile = ctx.tmp("cases.ndjson")
    vlib.write_ndjson(cfile, cases)
    ctx.log("model: %d states, theorems hold; %d address cases + %d token strings" % (mc.distinct, n_addr, n_raw))

    # 2. the real code on every case
    exe = ctx.build("addrcodec")
    trace = ctx.tmp("trace.ndjson")
    p = ctx.run([exe, "addr", cfile, trace], timeout=600)
    stats = json.loads(p.stdout.strip().splitlines()[-1])
    ctx.log("driver: %s" % json.dumps(stats))
    nlines = stats["events"]
    if nlines != len(cases):
        raise vlib.Infra("driver recorded %d of %d cases" % (nlines, len(cases)))
    if stats["valid"] < n_addr // 2:
        raise vlib.Infra("only %d of %d enumerated addresses pass the real Validate" % (stats["valid"], n_addr))

    # 3. TLC judges the recording
    mism, drift, drift_note = _judge(ctx, spec, trace, nlines, "Trace_AddrAbs.cfg", "Trace_Addr.cfg", 1800 if quick else 3000)

    rows = vlib.read_ndjson(trace)
    valid_rows = [r for r in rows if r["kind"] == "addr" and r["valid"]]
    nontrivial = len({json.dumps([r["system"], r["host"], r["port"], r["name"], r["parent"]]) for r in valid_rows
                      if ":" in r["host"] or r["parent"]}) + \
        len({r["s"] for r in rows if r["kind"] == "raw" and r["p"]["ok"]})
    samples = [{"address": [r["system"], r["host"], r["port"], r["name"], r["parent"]], "string": r["str"]} for r in valid_rows[:3]] + \
              [{"tokens": r["toks"], "parse_ok": r["p"]["ok"], "err": r["p"]["err"]} for r in rows if r["kind"] == "raw"][:3]
    cov = {
        "evaluations": len(cases), "distinct_nontrivial": nontrivial,
        "rule": "TLC enumerates (a) the product Systems x Hosts x Ports x Names x optional parent name, hosts = host names, IPv4, "
                "un-bracketed IPv6 literals and every token string over HostAlpha up to FreeHostLen (the real Validate decides "
                "which are valid addresses), (b) every token string prefix+suffix, suffix over Alphabet up to MaxSuffix tokens, for "
                "the prefixes of MC_Addr.tla; non-trivial = a valid address with an IPv6-style host (a ':' in the host) or a parent, "
                "or a token string the real Parse accepts (distinct cases counted)",
        "samples": samples, "exhaustive": True,
        "states": ctx.states()[0], "transitions": ctx.states()[1],
        "address_cases": n_addr, "valid_addresses": stats["valid"], "token_strings": n_raw,
        "token_strings_accepted_by_parse": stats["raw_parsed"], "events_validated": nlines,
        "monitor_mismatches": len(mism), "conformance_drift": drift_note, "drift_lines": len(drift),
        "model_defect_branch_checked": "Defects={FirstColonCut} violates InvRoundTrip in the model (expected)",
    }
    assumptions = ["strings are covered up to the token alphabets and length bounds of MC_Addr.tla; 'any string' beyond them is not explored",
                   "token-level Cut/Contains equal the byte-level ones because words contain no ':' '/' '@' (checked by the driver on every token)",
                   "hosts are host names / IPv4 / IPv6-style literals over [A-Za-z0-9._%:-]; hosts containing '/' or '@' (which Validate also accepts) are outside the property's domain",
                   "trusted: TLC, the JSON trace I/O, Go's strconv as transcribed in Addr.tla (ParseInt32)"]
    if mism:
        line, tag = mism[0]
        snippet = ctx.tmp("violation.ndjson")
        bad = sorted({l for l, _ in mism})[:50]
        vlib.write_ndjson(snippet, [dict(rows[l - 1], _line=l, _clauses=[t for (l2, t) in mism if l2 == l]) for l in bad])
        rp = ctx.save_replay("seed%d" % ctx.seed, snippet)
        ctx.evidence("exploration", cov, assumptions, violations=len(bad))
        r = rows[line - 1]
        what = ("address %s" % r["str"]) if r["kind"] == "addr" else ("string %r" % r["s"])
        raise vlib.Violation(pid, rp, "monitor: clause '%s' fails on the real code for %s (real Parse: %s); %d cases fail"
                             % (tag, what, json.dumps(r["p"]), len(bad)))
    if drift_note:
        ctx.log("conformance drift (not a verdict): " + drift_note)
    ctx.evidence("exploration", cov, assumptions)


def run(ctx, pid):
    if pid == "C26":
        return run_c26(ctx, pid)
    return run_c37(ctx, pid)


# ------------------------------------------------------------------------------------------- C37
BACKOFF = "BackoffNotOnWire"


def _is_backoff_drop(row):
    """The specific witness of known finding BackoffNotOnWire: the local supervisor has an exponential
    backoff and the copy has none at all."""
    a, b = row["local"]["sup"], row["copy"]["sup"]
    return a["initial"] > 0 and b["initial"] == 0 and b["maxDelay"] == 0 and b["reset"] == 0


def run_c37(ctx, pid):
    spec = "SpawnConfig"
    quick = ctx.quick
    known = ctx.is_known(BACKOFF)
    # 0. the model exhibits the recorded defect (keeps the Defects branch honest)
    d = ctx.tlc(spec, "MC_SpawnConfig_defect.cfg", module="MC_SpawnConfig", deadlock_check=False, timeout=600, expect_fail=True)
    if d.violated not in ("InvRelocation", "InvRemoteSpawn"):
        raise vlib.Infra("Defects={%s} should violate the round-trip invariants in the model, got %r" % (BACKOFF, d.violated))
    # 1. the repaired design keeps every configuration over both paths + case enumeration (one exhaustive TLC run)
    cases, mc = _cases(ctx, spec, "MC_SpawnConfig.cfg" if quick else "MC_SpawnConfig_t.cfg", "MC_SpawnConfig",
                       600 if quick else 2400, workers=4 if quick else 6)
    if len(cases) != mc.distinct - 1 or len(cases) < 5000:
        raise vlib.Infra("case enumeration incomplete: %d cases for %d states" % (len(cases), mc.distinct))
    ctx.rng.shuffle(cases)
    cfile = ctx.tmp("cases.ndjson")
    vlib.write_ndjson(cfile, cases)
    ctx.log("model: %d configurations, both wire paths preserve them in the repaired design" % len(cases))

    # 2. real actors, real wire
    exe = ctx.build("addrcodec")
    trace = ctx.tmp("trace.ndjson")
    p = ctx.run([exe, "spawn", cfile, trace], timeout=1200)
    stats = json.loads(p.stdout.strip().splitlines()[-1])
    ctx.log("driver: %s" % json.dumps(stats))
    nlines = stats["events"]
    n_reloc_expected = sum(1 for c in cases if c["relocatable"])
    if stats["remote"] != len(cases) or stats["child"] != len(cases) or stats["relocate"] != n_reloc_expected:
        raise vlib.Infra("driver executed %d remote / %d child / %d relocate of %d / %d / %d"
                         % (stats["remote"], stats["child"], stats["relocate"], len(cases), len(cases), n_reloc_expected))

    # 3. TLC judges the recording
    mism, drift, drift_note = _judge(ctx, spec, trace, nlines, "Trace_SpawnConfigAbs.cfg",
                                     "Trace_SpawnConfig_asfound.cfg" if known else "Trace_SpawnConfig.cfg", 1800 if quick else 3000,
                                     conf_module="Trace_SpawnConfig")
    rows = vlib.read_ndjson(trace)
    known_lines, bad = [], {}
    for line, tag in mism:
        r = rows[line - 1]
        if tag == "sup.backoff" and known and r["err"] == "" and _is_backoff_drop(r):
            known_lines.append(line)
        else:
            bad.setdefault(line, []).append(tag)
    if known_lines:
        r = rows[known_lines[0] - 1]
        ctx.report_known(BACKOFF, "%d of %d copies lost the supervisor's exponential backoff (e.g. %s path: local initial/max/reset = %d/%d/%d ms, copy 0/0/0)"
                         % (len(known_lines), nlines, r["path"], r["local"]["sup"]["initial"], r["local"]["sup"]["maxDelay"], r["local"]["sup"]["reset"]))

    def key(c):
        return json.dumps(c, sort_keys=True)

    def nontrivial(c):
        n = int(c["sup"]["set"]) + int(c["pass"]["kind"] != "none") + int(c["reent"]["set"]) + int(c["stash"]) + int(c["role"]["set"]) \
            + int(len(c["deps"]) > 0) + int(c["initTimeout"] > 0)
        return n >= 2
    cov = {
        "evaluations": nlines, "distinct_nontrivial": len({key(c) for c in cases if nontrivial(c)}),
        "rule": "TLC enumerates the full product of the choice sets of MC_SpawnConfig.tla (supervisor: absent or strategy x directive rules "
                "x retry x backoff; passivation; reentrancy; stash; role; dependencies; init timeout; relocatable); every configuration is "
                "spawned for real and carried over the remote-spawn path and the remote-child-spawn path (TCP loopback) and, when relocatable, "
                "over the relocation path (toSerialize -> proto bytes -> wireSpawnOptions); evaluations = recorded (configuration, path) pairs; non-trivial = "
                "configurations setting at least two of the seven option groups (distinct configurations counted)",
        "samples": [{"path": r["path"], "cfg": r["cfg"], "local": r["local"], "copy": r["copy"]} for r in rows[:3]],
        "exhaustive": True, "states": ctx.states()[0], "transitions": ctx.states()[1],
        "configurations": len(cases), "remote_spawn_pairs": stats["remote"], "remote_child_pairs": stats["child"], "relocation_pairs": stats["relocate"],
        "driver_errors": stats["errors"], "monitor_mismatches": len(mism), "known_finding_lines": len(known_lines),
        "conformance_drift": drift_note, "drift_lines": len(drift),
        "conformance_model": "as found (Defects={BackoffNotOnWire})" if known else "repaired (Defects={})",
        "model_defect_branch_checked": "Defects={BackoffNotOnWire} violates %s in the model (expected)" % d.violated,
    }
    assumptions = ["the spec contributes the domain, the abstraction of what is observable on a PID and a transcription of the codec; "
                   "it is not a behavioural model (level: exploration)",
                   "observation = the verif-tag projection VerifObserveSpawn of the PID's fields (supervisor incl. backoff and directive table, "
                   "passivation strategy, reentrancy state, stash, role, dependencies with their serialized payload, init-timeout override, relocatable)",
                   "relocation is exercised from toSerialize to wireSpawnOptions+Spawn on a second node (the cluster registry around "
                   "recreateActorFromWire is not started); remote spawn and remote child spawn run the real client, TCP loopback and server handlers; "
                   "the reference for a remote child is a child spawned locally by the same parent (children never get role/reentrancy, by goakt's design)",
                   "singleton, reliable-delivery and mailbox options are outside the property's list and not enumerated",
                   "trusted: TLC, the JSON trace I/O, the shim's field projection"]
    if bad:
        lines = sorted(bad)[:50]
        snippet = ctx.tmp("violation.ndjson")
        vlib.write_ndjson(snippet, [dict(rows[l - 1], _line=l, _components=bad[l]) for l in lines])
        rp = ctx.save_replay("seed%d" % ctx.seed, snippet)
        ctx.evidence("exploration", cov, assumptions, violations=len(bad))
        l0 = lines[0]
        r = rows[l0 - 1]
        detail = r["err"] if r["err"] else "local %s vs copy %s" % (json.dumps({k: r["local"].get(k) for k in _components(bad[l0])}),
                                                                   json.dumps({k: r["copy"].get(k) for k in _components(bad[l0])}))
        raise vlib.Violation(pid, rp, "monitor: component(s) %s differ after the %s path for configuration %s: %s; %d (configuration, path) pairs fail"
                             % (",".join(bad[l0]), r["path"], json.dumps(r["cfg"]), detail, len(bad)))
    if drift_note:
        ctx.log("conformance drift (not a verdict): " + drift_note)
    ctx.evidence("exploration", cov, assumptions)


def _components(tags):
    m = {"sup.strategy": "sup", "sup.retry": "sup", "sup.backoff": "sup", "sup.directives": "sup", "passivation": "pass",
         "reentrancy": "reent", "dependencies": "depsPayload"}
    return sorted({m.get(t, t) for t in tags if t != "error"})
