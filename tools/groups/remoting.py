"""C27 / C28 / C29 — remoting client: send coalescer, connection pool, per-message metadata.

C27  specs/Remote/Coalescer.tla (every select of submit / the writer goroutine / close is one action) is checked
     exhaustively by TLC; every edge of its state graphs is covered by walks that the puppet scheduler executes on
     the REAL coalescer (remoteclient.Client.RemoteTell / Close, real inet.Client, loopback inet.ProtoServer whose
     handler is scripted ok/fail); TLC-simulated walks of a larger configuration and free-running concurrent
     histories are added.  Recorded accept / reject / delivered-batch / failed-batch events are judged by TLC
     (Mon_Coalescer.tla: the property; Trace_Coalescer.tla: step-wise conformance with the design spec).
C28  see run_c28.      C29  see run_c29.
"""
import json, os, collections, concurrent.futures
import vlib, tlagraph

PROPERTIES = ["C27", "C28", "C29"]
SPEC = "Remote"


# ------------------------------------------------------------------------------------------------ helpers
def _cfg_with(ctx, base, name, repl):
    """Copy specs/Remote/<base> to a scratch cfg with textual replacements; returns (file name, path)."""
    src = os.path.join(vlib.VERIF, "specs", SPEC, base)
    with open(src) as f:
        txt = f.read()
    for a, b in repl.items():
        if a not in txt:
            raise vlib.Infra("cfg template %s lacks %r" % (base, a))
        txt = txt.replace(a, b)
    p = ctx.tmp(name)
    with open(p, "w") as f:
        f.write(txt)
    return os.path.basename(p), p


def _tuples(out, tag):
    t = vlib.tuples(out, tag)
    if len(t) != out.count('"%s"' % tag):
        raise vlib.Infra("unparsed %s tuples in TLC output" % tag)
    return t


def _cut_history(rows, line):
    """The history (New .. next New) that contains 1-based trace line `line`."""
    i = line - 1
    start = max(j for j in range(i + 1) if rows[j]["op"] == "New")
    end = next((j for j in range(i + 1, len(rows)) if rows[j]["op"] == "New"), len(rows))
    return rows[start:end]


class CoalJudged:
    def __init__(self):
        self.histories = 0
        self.nontrivial = 0        # histories with >= 2 accepted messages and a delivery or a dead letter
        self.stuck = 0
        self.mism = []             # [line, kind, id, detail]
        self.rows = None
        self.lines = 0


def judge_coalescer(ctx, label, trace, timeout=1500):
    rows = vlib.read_ndjson(trace)
    r = ctx.tlc(SPEC, "Mon_Coalescer.cfg", dfs=True, files={"trace.ndjson": trace}, timeout=timeout, heap="6g",
                name="mon-" + label)
    if r.depth != len(rows) + 1:
        raise vlib.Infra("monitor consumed %d of %d trace lines (%s)" % (r.depth - 1, len(rows), label))
    j = CoalJudged()
    j.rows, j.lines = rows, len(rows)
    j.mism = _tuples(r.out, "MISMATCH")
    hs = _tuples(r.out, "HISTORY")
    j.histories = len(hs)
    # distinct non-trivial histories (retries of a walk that went the same way count once)
    sigs, cur = set(), []
    for e in rows + [{"op": "New"}]:
        if e["op"] == "New":
            if sum(1 for x in cur if x[0] == "acc") >= 2 and any(x[0] in ("dlv", "dead") for x in cur) and any(x[0] == "End" for x in cur):
                sigs.add(json.dumps(cur))
            cur = []
        else:
            cur.append([e["op"], e["t"], e["id"], e["br"], e["ids"]])
    j.nontrivial = len(sigs)
    j.stuck = len(_tuples(r.out, "STUCK"))
    return j


def conform_coalescer(ctx, label, trace, maxbatch, nlines, timeout=1500):
    name, path = _cfg_with(ctx, "Trace_Coalescer.cfg", "Trace_Coalescer_%s.cfg" % label, {"B = 1": "B = %d" % maxbatch})
    r = ctx.tlc(SPEC, name, module="Trace_Coalescer", dfs=True, files={"trace.ndjson": trace, name: path}, timeout=timeout,
                heap="6g", expect_fail=True, name="conf-" + label)
    if r.violated:
        return "%s: invariant %s of Coalescer.tla violated on the real trace at line %d" % (label, r.violated, r.depth)
    if r.error:
        return "%s: conformance run failed: %s" % (label, r.error[:200])
    if r.depth != nlines + 1:
        return "%s: trace rejected at line %d of %d" % (label, r.depth, nlines)
    return None


def walks_to_behaviours(walks):
    return [[{"a": s["a"], "args": s["args"]} for s in w] for w in walks]


# ------------------------------------------------------------------------------------------------ C27
def run_c27(ctx, pid):
    quick = ctx.quick
    rng = ctx.rng
    pool = concurrent.futures.ThreadPoolExecutor(max_workers=3 if quick else 4)
    late_known = ctx.is_known("LateSubmit")     # None since the defect is repaired; kept so that a re-opened finding is reported as such

    # ---- 1. design level
    design = ["MC_Coalescer_q1.cfg", "MC_Coalescer_q2.cfg", "MC_Coalescer_q3.cfg"] if quick else \
             ["MC_Coalescer_t1.cfg", "MC_Coalescer_t2.cfg", "MC_Coalescer_t3.cfg"]
    f_design = [pool.submit(ctx.tlc_must_hold, SPEC, c, module="MC_Coalescer", timeout=900 if quick else 3000,
                            workers=2 if quick else 6) for c in design]
    f_late = pool.submit(ctx.tlc, SPEC, "MC_Coalescer_late.cfg", module="MC_Coalescer", timeout=900, expect_fail=True, workers=2)
    f_single = pool.submit(ctx.tlc, SPEC, "MC_Coalescer_single.cfg", module="MC_Coalescer", timeout=900, expect_fail=True, workers=2)
    f_resend = pool.submit(ctx.tlc, SPEC, "MC_Coalescer_resend.cfg", module="MC_Coalescer", timeout=900, expect_fail=True, workers=2)
    f_live = None
    if not quick:
        f_live = pool.submit(ctx.tlc_must_hold, SPEC, "MC_Coalescer_live.cfg", module="MC_Coalescer", timeout=3000, workers=4)

    # ---- 2. state graphs of the code as it is -> edge-cover walks
    dumps = [("a", 1, 400), ("b", 1, 500), ("c", 2, 500)] if quick else \
            [("a", 1, 10 ** 9), ("b", 1, 10 ** 9), ("c", 2, 10 ** 9), ("d", 1, 9000), ("e", 2, 9000)]
    f_dumps = []
    for tag, b, nsel in dumps:
        f_dumps.append((tag, b, nsel, pool.submit(ctx.tlc, SPEC, "Dump_Coalescer_%s.cfg" % tag, module="MC_Coalescer",
                                                   timeout=900 if quick else 3000, dump_dot=True, workers=2)))
    # larger configuration: TLC random walks
    f_gen = pool.submit(ctx.tlc, SPEC, "Gen_Coalescer.cfg", module="Gen_Coalescer", simulate="num=%d" % (300 if quick else 4000),
                        deadlock_check=False, timeout=900 if quick else 2400, workers=1, depth=200)

    exe = ctx.build("remoting")
    total = collections.Counter()
    samples = []
    drifts = []
    md_mism = 0
    judged = []

    def replay(label, beh, maxbatch, retries):
        bfile, trace = ctx.tmp("coal-%s-behaviours.ndjson" % label), ctx.tmp("coal-%s-trace.ndjson" % label)
        vlib.write_ndjson(bfile, beh)
        p = ctx.run([exe, "coal-replay", bfile, trace, str(maxbatch), str(retries)], timeout=900 if quick else 3000)
        rs = json.loads(p.stdout.strip().splitlines()[-1])
        j = judge_coalescer(ctx, label, trace, timeout=900 if quick else 3000)
        drift = conform_coalescer(ctx, label, trace, maxbatch, j.lines, timeout=900 if quick else 3000)
        return label, rs, j, drift

    f_replays = []
    by_b = collections.defaultdict(list)      # walks are replayed in one driver run per maxBatch (fewer TLC start-ups)
    for tag, b, nsel, fut in f_dumps:
        d = fut.result()
        g = tlagraph.Graph.load(os.path.join(d.rundir, "graph.dot"))
        walks, left = g.edge_cover(rng)
        if left:
            raise vlib.Infra("edge cover incomplete (%s)" % tag)
        total["graph_edges"] += g.nedges
        total["cover_walks"] += len(walks)
        sel = vlib.sample(rng, walks, nsel)
        beh = walks_to_behaviours(sel)
        if len(samples) < 3:
            samples.append({"walk_" + tag: [[s["a"]] + s["args"] for s in beh[0]]})
        by_b[b] += beh
    gen = f_gen.result()
    sim = [[s for s in b if s["a"] != "pad"] for b in vlib.parse_sim_behaviours(gen.out)]
    if len(sim) < (50 if quick else 500):
        raise vlib.Infra("TLC simulation produced only %d walks" % len(sim))
    total["random_walks"] = len(sim)
    by_b[2] += sim
    for b in sorted(by_b):
        f_replays.append(pool.submit(replay, "replay-B%d" % b, by_b[b], b, 5))

    # ---- 3. free-running histories (real blocking, real select races) and, end to end on two real actor systems, order /
    #         at-most-once at the receiving actors and dead letters at the sender; one trace, one monitor run
    def free_group():
        tmo = 900 if quick else 3000
        cmds = [["coal-stress", str(mb), str(nc), str(nm), str(n), str(ctx.seed * 100 + mb)]
                for mb, nc, nm, n in ((1, 3, 4, 150 if quick else 2500), (2, 4, 6, 150 if quick else 2500), (4, 6, 8, 100 if quick else 1500))]
        cmds.append(["sys-tell", "8", "30", "3", str(20 if quick else 400), str(ctx.seed)])
        cmds.append(["sys-dead", "4", "12", str(5 if quick else 60), str(ctx.seed)])
        cmds.append(["coal-witness", str(6 if quick else 40)])      # counterexample schedule of the repaired LateSubmit defect
        rows, rs_all = [], collections.Counter()
        for i, argv in enumerate(cmds):
            t = ctx.tmp("coal-free-%d-%s.ndjson" % (i, argv[0]))
            p = ctx.run([exe] + argv + [t], timeout=tmo)
            for k, v in json.loads(p.stdout.strip().splitlines()[-1]).items():
                if isinstance(v, int):
                    rs_all[argv[0] + "." + k] += v
            rows += vlib.read_ndjson(t)
        trace = ctx.tmp("coal-free-all.ndjson")
        vlib.write_ndjson(trace, rows)
        return "free-run", dict(rs_all), judge_coalescer(ctx, "free-run", trace, timeout=tmo), None

    f_replays.append(pool.submit(free_group))

    # ---- collect design results
    for f in f_design:
        f.result()
    if f_live:
        f_live.result()
    if f_single.result().violated != "NoSilentDrop":
        raise vlib.Infra("Coalescer.tla with Defects={SingleDrain} no longer violates NoSilentDrop (spec changed?)")
    if f_resend.result().violated != "AtMostOnce":
        raise vlib.Infra("Coalescer.tla with Defects={ResendOnError} no longer violates AtMostOnce (spec changed?)")
    if f_late.result().violated != "NoSilentDrop":
        raise vlib.Infra("Coalescer.tla with Defects={LateSubmit} no longer violates NoSilentDrop (spec changed?)")

    assumptions = [
        "a Go select with several ready cases picks one at random: a replay follows a walk only while the real choice "
        "equals the walk's (otherwise the run continues freely and is still judged); walks are retried",
        "transport failures are scripted at the receiver: proto error / connection closed before delivery / batch delivered and "
        "the reply lost (then the batch is legitimately delivered AND dead-lettered, but must reach the receiver only once); "
        "the 5 s flush time-out is not exercised",
        "in the puppet replays the handler registered with WithCoalescingErrorHandler records the failed batch; the real "
        "dead-letter publication (enqueueCoalescedFailure) is exercised end to end only for an unreachable endpoint (sys-dead)",
        "puppet replays never park a thread inside a blocking select / lock (a step is taken only when it can complete); really "
        "blocked submitters, writer and closer are exercised by the free-running histories and by the witness schedule of the "
        "repaired LateSubmit defect (Close must be held back while a submit is in flight)",
    ]
    known_hits = collections.Counter()
    violations = []
    infra = []
    aborted = []
    for fut in f_replays:
        try:
            label, rs, j, drift = fut.result()
        except vlib.Infra as ex:      # one leg broke (e.g. the code under test crashed the driver): judge the others first
            infra.append(str(ex))
            continue
        judged.append(j)
        total["histories"] += j.histories
        total["nontrivial"] += j.nontrivial
        total["events"] += j.lines
        total["stuck"] += j.stuck
        for k in ("runs", "completed", "diverged", "drift", "watchdog", "steps", "unfinished", "behaviours"):
            total[k] += rs.get(k, 0)
        if drift:
            drifts.append(drift)
        if rs.get("first_drift"):
            drifts.append("%s: %s" % (label, rs["first_drift"]))
        if rs.get("aborted"):
            aborted.append(label)
        ctx.log("%-12s %s | histories %d nontrivial %d mismatches %d stuck %d%s"
                % (label, {k: v for k, v in rs.items() if k not in ("first_drift", "events")}, j.histories, j.nontrivial,
                   len(j.mism), j.stuck, " | DRIFT " + drift if drift else ""))
        for m in j.mism:
            line, kind, mid, detail = int(m[0]), m[1], m[2], m[3]
            if kind == "md":
                md_mism += 1          # per-message metadata on the wire: property C29, not C27
                continue
            if kind == "lost" and detail == "late" and late_known:
                known_hits["LateSubmit"] += 1
                ctx.report_known("LateSubmit", late_known["what"])
                continue
            violations.append((label, j, line, kind, mid, detail))
    pool.shutdown()
    st, tr = ctx.states()
    cov = {"states": st, "transitions": tr, "traces_validated_against_impl": total["histories"], "samples": samples,
           "evaluations": total["histories"], "distinct_nontrivial": total["nontrivial"],
           "rule": "histories = puppet replays of edge-cover walks of the Coalescer.tla state graphs (maxBatch 1 and 2) and of TLC "
                   "random walks (3 callers x 3, maxBatch 2) on the real coalescer + free-running concurrent RemoteTell/Close runs; "
                   "distinct_nontrivial = distinct recorded histories with >= 2 accepted messages and at least one delivered or dead-lettered batch",
           "graph_edges": total["graph_edges"], "edge_cover_walks": total["cover_walks"], "walks_replayed": total["behaviours"],
           "walk_runs": total["runs"], "walks_followed_to_the_end": total["completed"], "select_divergences": total["diverged"],
           "walks_never_completed": total["unfinished"], "atomic_steps_replayed": total["steps"], "replay_drift": total["drift"],
           "watchdog": total["watchdog"], "stuck_histories": total["stuck"], "events_validated": total["events"],
           "conformance_drift": drifts[:5] or None, "known_finding_histories": dict(known_hits),
           "wire_metadata_mismatches": md_mism, "exhaustive": False}
    if infra and not violations:
        raise vlib.Infra(infra[0])
    if not violations and not aborted and (total["histories"] < 100 or total["nontrivial"] < 50):
        raise vlib.Infra("too few histories judged (%d, %d non-trivial)" % (total["histories"], total["nontrivial"]))
    if total["completed"] < total["behaviours"] // 2:
        drifts.append("only %d of %d walks were followed to their end" % (total["completed"], total["behaviours"]))
    if violations:
        label, j, line, kind, mid, detail = violations[0]
        snippet = ctx.tmp("violation-%s.ndjson" % label)
        vlib.write_ndjson(snippet, _cut_history(j.rows, line))
        rp = ctx.save_replay("%s-seed%d" % (label, ctx.seed), snippet)
        ctx.evidence("model_checking", cov, assumptions, violations=len(violations))
        what = {"lost": "accepted message %s was neither delivered nor handed to the error handler by the time Close had returned "
                        "(accepted %s the close began)" % (mid, "after" if detail == "late" else "before"),
                "dup": "message %s: %s" % (mid, detail), "order": "message %s delivered %s" % (mid, detail),
                "phantom": "message %s reached the receiver / error handler although RemoteTell did not accept it (%s)" % (mid, detail),
                "garbled": "a delivered payload could not be decoded"}.get(kind, "%s %s %s" % (kind, mid, detail))
        raise vlib.Violation(pid, rp, "coalescer (%s, trace line %d): %s; %d mismatches in total" % (label, line, what, len(violations)))
    for d in drifts[:5]:
        ctx.log("drift (not a verdict): " + d)
    ctx.evidence("model_checking", cov, assumptions)
    if aborted:
        raise vlib.Infra("the replay gave up after repeated watchdog expiries (%s): the code under test hangs; no recorded event "
                         "contradicts the property" % ", ".join(aborted))


# ------------------------------------------------------------------------------------------------ C28
class PoolJudged:
    def __init__(self):
        self.histories = self.results = self.ok = self.stuck = self.lines = self.distinct = 0
        self.mism, self.mdmism, self.rows = [], [], None


def judge_pool(ctx, label, trace, timeout=1500):
    rows = vlib.read_ndjson(trace)
    r = ctx.tlc(SPEC, "Mon_ConnPool.cfg", dfs=True, files={"trace.ndjson": trace}, timeout=timeout, heap="6g", name="monp-" + label)
    if r.depth != len(rows) + 1:
        raise vlib.Infra("pool monitor consumed %d of %d trace lines (%s)" % (r.depth - 1, len(rows), label))
    j = PoolJudged()
    j.rows, j.lines = rows, len(rows)
    j.mism = _tuples(r.out, "MISMATCH")
    j.mdmism = _tuples(r.out, "MDMISMATCH")
    hs = _tuples(r.out, "HISTORY")
    j.histories = len(hs)
    j.results = sum(int(h[1]) for h in hs)
    j.ok = sum(int(h[2]) for h in hs)
    sigs, cur = set(), []
    for e in rows + [{"op": "New"}]:
        if e["op"] == "New":
            if sum(1 for x in cur if x[3] == "" and x[2]) >= 2:
                sigs.add(json.dumps(cur))
            cur = []
        elif (e["op"] == "Reply" and e["fin"] == 1) or e["op"] in ("Timeout", "Result"):
            cur.append([e["c"], e["want"], e["got"], e["err"]])
    j.distinct = len(sigs)
    j.stuck = len(_tuples(r.out, "STUCK"))
    return j


def conform_pool(ctx, label, trace, maxidle, nlines, timeout=1500):
    name, path = _cfg_with(ctx, "Trace_ConnPool.cfg", "Trace_ConnPool_%s.cfg" % label, {"MaxIdle = 1": "MaxIdle = %d" % maxidle})
    r = ctx.tlc(SPEC, name, module="Trace_ConnPool", dfs=True, files={"trace.ndjson": trace, name: path}, timeout=timeout,
                heap="6g", expect_fail=True, name="confp-" + label)
    if r.violated:
        return "%s: invariant %s of ConnPool.tla violated on the real trace at line %d" % (label, r.violated, r.depth)
    if r.error:
        return "%s: conformance run failed: %s" % (label, r.error[:200])
    if r.depth != nlines + 1:
        return "%s: trace rejected at line %d of %d" % (label, r.depth, nlines)
    return None


def run_c28(ctx, pid):
    quick = ctx.quick
    rng = ctx.rng
    pool = concurrent.futures.ThreadPoolExecutor(max_workers=3 if quick else 4)
    tmo = 900 if quick else 3000
    f_design = [pool.submit(ctx.tlc_must_hold, SPEC, c, module="MC_ConnPool", timeout=tmo, workers=2 if quick else 6)
                for c in (["MC_ConnPool_q.cfg", "MC_ConnPool_q2.cfg"] if quick else ["MC_ConnPool_t2.cfg", "MC_ConnPool_t.cfg", "MC_ConnPool_q.cfg"])]
    f_put = pool.submit(ctx.tlc, SPEC, "MC_ConnPool_put.cfg", module="MC_ConnPool", timeout=900, expect_fail=True, workers=2)
    dumps = [("q", 1, 600), ("q2", 1, 600)] if quick else [("q", 1, 10 ** 9), ("q2", 1, 10 ** 9), ("t", 2, 12000)]
    f_dumps = [(tag, mi, nsel, pool.submit(ctx.tlc, SPEC, "Dump_ConnPool_%s.cfg" % tag, module="MC_ConnPool", timeout=tmo,
                                           dump_dot=True, workers=2)) for tag, mi, nsel in dumps]
    exe = ctx.build("remoting")
    total = collections.Counter()
    samples, drifts, futs = [], [], []

    def replay(label, beh, maxidle):
        bfile, trace = ctx.tmp("pool-%s-behaviours.ndjson" % label), ctx.tmp("pool-%s-trace.ndjson" % label)
        vlib.write_ndjson(bfile, beh)
        p = ctx.run([exe, "pool-replay", bfile, trace, str(maxidle), "8"], timeout=tmo)
        rs = json.loads(p.stdout.strip().splitlines()[-1])
        j = judge_pool(ctx, label, trace, timeout=tmo)
        return label, rs, j, conform_pool(ctx, label, trace, maxidle, j.lines, timeout=tmo)

    def stress(label, maxidle, callers, nex, n):
        trace = ctx.tmp("pool-stress-%s.ndjson" % label)
        p = ctx.run([exe, "pool-stress", str(maxidle), str(callers), str(nex), str(n), str(ctx.seed * 100 + maxidle), trace], timeout=tmo)
        return label, json.loads(p.stdout.strip().splitlines()[-1]), judge_pool(ctx, "stress-" + label, trace, timeout=tmo), None

    def sysask(label, callers, asks, rounds):
        trace = ctx.tmp("sys-ask-%s.ndjson" % label)
        p = ctx.run([exe, "sys-ask", str(callers), str(asks), str(rounds), str(ctx.seed), trace], timeout=tmo)
        return label, json.loads(p.stdout.strip().splitlines()[-1]), judge_pool(ctx, label, trace, timeout=tmo), None

    for tag, mi, nsel, fut in f_dumps:
        d = fut.result()
        g = tlagraph.Graph.load(os.path.join(d.rundir, "graph.dot"))
        walks, left = g.edge_cover(rng)
        if left:
            raise vlib.Infra("edge cover incomplete (%s)" % tag)
        total["graph_edges"] += g.nedges
        total["cover_walks"] += len(walks)
        beh = walks_to_behaviours(vlib.sample(rng, walks, nsel))
        if len(samples) < 3:
            samples.append({"walk_" + tag: [[s["a"]] + s["args"] for s in beh[0]]})
        futs.append(pool.submit(replay, "cover-" + tag, beh, mi))
    for label, mi, nc, ne, n in (("i0", 0, 6, 4, 60 if quick else 800), ("i1", 1, 6, 4, 60 if quick else 800),
                                 ("i4", 4, 12, 4, 60 if quick else 800)):
        futs.append(pool.submit(stress, label, mi, nc, ne, n))
    futs.append(pool.submit(sysask, "sys-ask", 8, 12, 6 if quick else 80))
    for f in f_design:
        f.result()
    if f_put.result().violated not in ("PoolClean", "OwnReply", "OwnPrefix"):
        raise vlib.Infra("ConnPool.tla with Defects={PutOnTimeout} no longer violates PoolClean/OwnReply (spec changed?)")
    violations = []
    infra = []
    md = 0
    for fut in futs:
        try:
            label, rs, j, drift = fut.result()
        except vlib.Infra as ex:
            infra.append(str(ex))
            continue
        total["histories"] += j.histories
        total["results"] += j.results
        total["ok"] += j.ok
        total["distinct"] += j.distinct
        total["events"] += j.lines
        total["stuck"] += j.stuck
        for k in ("behaviours", "completed", "drift", "steps"):
            total[k] += rs.get(k, 0)
        if drift:
            drifts.append(drift)
        if rs.get("first_drift"):
            drifts.append("%s: %s" % (label, rs["first_drift"]))
        md += len(j.mdmism)
        ctx.log("%-10s %s | histories %d exchanges %d (ok %d) mismatches %d%s"
                % (label, {k: v for k, v in rs.items() if k not in ("first_drift", "events")}, j.histories, j.results, j.ok,
                   len(j.mism), " | DRIFT " + drift if drift else ""))
        for m in j.mism:
            violations.append((label, j, int(m[0]), m[1], m[2], m[3]))
    pool.shutdown()
    st, tr = ctx.states()
    cov = {"states": st, "transitions": tr, "traces_validated_against_impl": total["histories"], "samples": samples,
           "evaluations": total["results"], "distinct_nontrivial": total["distinct"], "exchanges_with_replies": total["ok"],
           "rule": "evaluations = exchanges (SendProto / SendBatchProto / Ask / BatchAsk calls) whose outcome was judged; "
                   "distinct_nontrivial = distinct recorded histories (sequence of caller, requests, replies, error) with >= 2 "
                   "exchanges that returned replies; histories = puppet "
                   "replays of edge-cover walks of ConnPool.tla on the real inet.Client against a ProtoServer whose replies the walk "
                   "releases + free-running concurrent exchanges with deadlines + Ask/BatchAsk between two real actor systems",
           "graph_edges": total["graph_edges"], "edge_cover_walks": total["cover_walks"], "walks_replayed": total["behaviours"],
           "walks_followed_to_the_end": total["completed"], "replay_drift": total["drift"], "steps_replayed": total["steps"],
           "stuck_histories": total["stuck"], "events_validated": total["events"], "conformance_drift": drifts[:5] or None,
           "ask_metadata_mismatches": md, "exhaustive": False}
    assumptions = [
        "without hooks in inet.Client the walk controls when the server answers and which deadlines are short; a caller blocked in "
        "a read takes its reply in the same step (ConnPool.tla Reply); Get/Put themselves are mutex-protected critical sections",
        "short deadlines are real time (120 ms): a short-deadline exchange is never answered in time by construction",
        "idle-timeout eviction and TLS / compression wrappers are not exercised",
    ]
    if infra and not violations:
        raise vlib.Infra(infra[0])
    if not violations and (total["histories"] < 100 or total["ok"] < 200):
        raise vlib.Infra("too few exchanges judged (%d histories, %d ok)" % (total["histories"], total["ok"]))
    if violations:
        label, j, line, who, want, got = violations[0]
        snippet = ctx.tmp("violation-%s.ndjson" % label)
        vlib.write_ndjson(snippet, _cut_history(j.rows, line))
        rp = ctx.save_replay("%s-seed%d" % (label, ctx.seed), snippet)
        ctx.evidence("model_checking", cov, assumptions, violations=len(violations))
        raise vlib.Violation(pid, rp, "pooled client (%s, trace line %d): caller %s asked %s and was handed %s without an error; "
                             "%d mismatches in total" % (label, line, who, want, got, len(violations)))
    for d in drifts[:5]:
        ctx.log("drift (not a verdict): " + d)
    ctx.evidence("model_checking", cov, assumptions)


# ------------------------------------------------------------------------------------------------ C29
def run_c29(ctx, pid):
    quick = ctx.quick
    rng = ctx.rng
    pool = concurrent.futures.ThreadPoolExecutor(max_workers=3 if quick else 4)
    tmo = 900 if quick else 3000
    f_design = pool.submit(ctx.tlc_must_hold, SPEC, "MC_Meta_q.cfg" if quick else "MC_Meta_t.cfg", module="MetaCoalescer",
                           timeout=tmo, workers=2 if quick else 6)
    f_batchmd = pool.submit(ctx.tlc, SPEC, "MC_Meta_batchmd.cfg", module="MetaCoalescer", timeout=900, expect_fail=True, workers=2)
    f_mixed = pool.submit(ctx.tlc, SPEC, "MC_Meta_mixed.cfg", module="MetaCoalescer", timeout=900, expect_fail=True, workers=2)
    f_dump = pool.submit(ctx.tlc, SPEC, "Dump_Coalescer_c.cfg" if quick else "Dump_Coalescer_e.cfg", module="MC_Coalescer",
                         timeout=tmo, dump_dot=True, workers=2)
    f_gen = pool.submit(ctx.tlc, SPEC, "Gen_Coalescer.cfg", module="Gen_Coalescer", simulate="num=%d" % (300 if quick else 3000),
                        deadlock_check=False, timeout=tmo, workers=1, depth=200)
    exe = ctx.build("remoting")
    total = collections.Counter()
    samples, futs = [], []

    def replay(label, beh, maxbatch):
        bfile, trace = ctx.tmp("meta-%s-behaviours.ndjson" % label), ctx.tmp("meta-%s-trace.ndjson" % label)
        vlib.write_ndjson(bfile, beh)
        p = ctx.run([exe, "coal-replay", bfile, trace, str(maxbatch), "3"], timeout=tmo)
        return label, json.loads(p.stdout.strip().splitlines()[-1]), judge_coalescer(ctx, "meta-" + label, trace, timeout=tmo), "wire"

    def systell(label, callers, msgs, rcv, rounds):
        trace = ctx.tmp("sys-tell-%s.ndjson" % label)
        p = ctx.run([exe, "sys-tell", str(callers), str(msgs), str(rcv), str(rounds), str(ctx.seed), trace], timeout=tmo)
        return label, json.loads(p.stdout.strip().splitlines()[-1]), judge_coalescer(ctx, label, trace, timeout=tmo), "tell"

    def sysask(label, callers, asks, rounds):
        trace = ctx.tmp("sys-ask-%s.ndjson" % label)
        p = ctx.run([exe, "sys-ask", str(callers), str(asks), str(rounds), str(ctx.seed), trace], timeout=tmo)
        return label, json.loads(p.stdout.strip().splitlines()[-1]), judge_pool(ctx, label, trace, timeout=tmo), "ask"

    d = f_dump.result()
    g = tlagraph.Graph.load(os.path.join(d.rundir, "graph.dot"))
    walks, left = g.edge_cover(rng)
    if left:
        raise vlib.Infra("edge cover incomplete")
    beh = walks_to_behaviours(vlib.sample(rng, walks, 500 if quick else 8000))
    samples.append({"walk": [[s["a"]] + s["args"] for s in beh[0]]})
    futs.append(pool.submit(replay, "cover", beh, 2))
    sim = [[s for s in b if s["a"] != "pad"] for b in vlib.parse_sim_behaviours(f_gen.result().out)]
    if len(sim) < (50 if quick else 500):
        raise vlib.Infra("TLC simulation produced only %d walks" % len(sim))
    futs.append(pool.submit(replay, "sim", sim, 2))
    # many short rounds (small batches that mix callers) and a few big ones (batches up to the 256 limit)
    futs.append(pool.submit(systell, "tell-small", 6, 6, 3, 150 if quick else 3000))
    futs.append(pool.submit(systell, "tell-big", 12, 120, 4, 4 if quick else 60))
    futs.append(pool.submit(sysask, "ask", 8, 12, 6 if quick else 80))
    f_design.result()
    if f_batchmd.result().violated != "MdRestored":
        raise vlib.Infra("MetaCoalescer.tla with MDefects={BatchMd} no longer violates MdRestored (spec changed?)")
    if f_mixed.result().violated != "NoMixedBatch":
        raise vlib.Infra("MetaCoalescer.tla: no batch mixes callers within the bounds (vacuous)")
    violations = []
    infra = []
    distinct = set()
    for fut in futs:
        try:
            label, rs, j, kind = fut.result()
        except vlib.Infra as ex:
            infra.append(str(ex))
            continue
        total["histories"] += j.histories
        total["events"] += j.lines
        total["stuck"] += j.stuck
        if kind == "ask":
            mdm = [(int(m[0]), m[1], m[2]) for m in j.mdmism]
            n = sum(1 for e in j.rows if e["op"] == "recv")
            distinct.update((label, e["req"]) for e in j.rows if e["op"] == "recv")
        else:
            mdm = [(int(m[0]), m[2], m[3]) for m in j.mism if m[1] == "md"]
            n = sum(len(e["ids"]) for e in j.rows if e["op"] == "dlv")
            total["mixed_batches"] += sum(1 for e in j.rows if e["op"] == "dlv" and len({i // 1000 for i in e["ids"]}) > 1)
            distinct.update((label,) + tuple(e["ids"]) for e in j.rows if e["op"] == "dlv")
        total["messages"] += n
        total["batches_gt1"] += rs.get("batches_gt1", 0)
        if rs.get("aborted"):   # the replay gave up after repeated watchdog expiries: coverage collapsed, say so (as C27 does)
            infra.append("the replay gave up after repeated watchdog expiries (%s, drift %s of %s walks); no recorded event "
                         "contradicts the property" % (label, rs.get("drift"), rs.get("behaviours")))
        ctx.log("%-10s %s | histories %d messages with restored metadata %d, mismatches %d, stuck %d"
                % (label, {k: v for k, v in rs.items() if k not in ("first_drift", "events")}, j.histories, n, len(mdm), j.stuck))
        for line, mid, got in mdm:
            violations.append((label, j, line, mid, got))
    pool.shutdown()
    st, tr = ctx.states()
    cov = {"states": st, "transitions": tr, "traces_validated_against_impl": total["histories"], "samples": samples,
           "evaluations": total["messages"], "distinct_nontrivial": len(distinct),
           "rule": "evaluations = messages whose restored header was compared with the injected one: per RemoteMessage on the wire "
                   "in puppet replays of Coalescer.tla walks with maxBatch 2 (batches that mix callers), per message in "
                   "ReceiveContext.Context() of real receiving actors for concurrent Tell (coalesced batches) and Ask / BatchAsk "
                   "between two real actor systems; every message has its own header value; distinct_nontrivial = distinct "
                   "delivered batches (by content) / distinct asked messages among them",
           "wire_batches_mixing_callers": total["mixed_batches"], "system_batches_with_more_than_one_message": total["batches_gt1"],
           "stuck_histories": total["stuck"], "events_validated": total["events"], "exhaustive": False}
    assumptions = ["the propagator is the harness's (one header carrying the message id); header maps with several keys, "
                   "multi-valued headers and propagators that fail are not varied",
                   "BatchAsk carries ONE caller context for the whole batch by API design: the id injected for its messages is the call's"]
    if infra and not violations:
        raise vlib.Infra(infra[0])
    if not violations and (total["messages"] < 1000 or total["mixed_batches"] < 20):
        raise vlib.Infra("too little judged (%d messages, %d wire batches mixing callers)" % (total["messages"], total["mixed_batches"]))
    if violations:
        label, j, line, mid, got = violations[0]
        snippet = ctx.tmp("violation-%s.ndjson" % label)
        vlib.write_ndjson(snippet, _cut_history(j.rows, line))
        rp = ctx.save_replay("%s-seed%d" % (label, ctx.seed), snippet)
        ctx.evidence("model_checking", cov, assumptions, violations=len(violations))
        raise vlib.Violation(pid, rp, "context metadata (%s, trace line %d): message %s was sent with header value = its id but the "
                             "receiver restored %s; %d mismatches in total" % (label, line, mid, got, len(violations)))
    ctx.evidence("model_checking", cov, assumptions)


def run(ctx, pid):
    return {"C27": run_c27, "C28": run_c28, "C29": run_c29}[pid](ctx, pid)
