#!/usr/bin/env python3
"""Run the quick (or thorough) command of every check in MANIFEST.json, N at a time, and summarise.
usage: tools/run_all.py [-j N] [--tier quick|thorough] [--only C01,C02]   (logs: .scratch/run_all/<id>.log)"""
import argparse, json, os, subprocess, sys, time, concurrent.futures
V = os.path.dirname(os.path.dirname(os.path.abspath(__file__)))
ap = argparse.ArgumentParser(); ap.add_argument("-j", type=int, default=3); ap.add_argument("--tier", default="quick"); ap.add_argument("--only", default="")
a = ap.parse_args()
m = json.load(open(os.path.join(V, "MANIFEST.json")))
checks = [c for c in m["checks"] if not a.only or c["property_id"] in a.only.split(",")]
logd = os.path.join(V, ".scratch", "run_all"); os.makedirs(logd, exist_ok=True)
def one(c):
    pid = c["property_id"]; cmd = c["quick_cmd"] if a.tier == "quick" else c.get("thorough_cmd", c["quick_cmd"])
    t = time.time()
    with open(os.path.join(logd, pid + ".log"), "w") as f:
        rc = subprocess.run(cmd, shell=True, cwd=V, stdout=f, stderr=subprocess.STDOUT).returncode
    ev = os.path.join(V, "evidence", pid + ".json")
    fresh = os.path.exists(ev) and os.path.getmtime(ev) >= t
    return pid, rc, time.time() - t, fresh
with concurrent.futures.ThreadPoolExecutor(max_workers=a.j) as ex:
    res = []
    for r in ex.map(one, checks):
        print("%s exit=%d wall=%.0fs evidence_rewritten=%s" % r, flush=True); res.append(r)
bad = [r for r in res if r[1] != 0 or not r[3]]
print("SUMMARY: %d checks, %d not ok: %s" % (len(res), len(bad), [r[0] for r in bad]))
sys.exit(1 if bad else 0)
