#!/bin/sh
# usage: tools/confirm_seed.sh <id> <src-dir with patch.diff demo_test.go meta.json> <demo -run regex> <existing-tests -run regex>
# Confirms a seeded change in a scratch worktree of /repo HEAD: applies, builds, demo FAILS with it and PASSES without it,
# the given subset of the existing tests still passes with it. Writes /verif/seeded/<id>/{patch.diff,demo_test.go,meta.json,confirm.log}.
id=$1; src=$2; demo=$3; existing=$4; pkg=${5:-actor}
export GOFLAGS="-mod=mod -p=4" GOPROXY=off
wt=/tmp/wt/seedconf-$id
out=/verif/seeded/$id
mkdir -p $out
log=$out/confirm.log
: > $log
git -C /repo worktree remove --force $wt 2>/dev/null
git -C /repo worktree add -q -f $wt HEAD || exit 2
cd $wt
if ! git apply $src/patch.diff 2>>$log; then echo "RESULT $id: patch does not apply to /repo HEAD" | tee -a $log; git -C /repo worktree remove --force $wt; exit 1; fi
cp $src/demo_test.go $pkg/zz_seed_demo_test.go
go build $(go list -f '{{if ne .Name "main"}}{{.ImportPath}}{{end}}' ./...) >>$log 2>&1 && echo "build with patch: ok" >>$log || echo "build with patch: FAILED" >>$log
go test -vet=off -count=1 -run "$demo" ./$pkg/ >$out/.demo_with.txt 2>&1; rc_with=$?
tail -5 $out/.demo_with.txt >>$log
go test -vet=off -count=1 -run "$existing" -skip "TestNonBlockingBoundedMailbox/With_concurrent|$demo" ./$pkg/ >$out/.existing.txt 2>&1; rc_ex=$?
grep -E "^(--- FAIL|FAIL|ok)" $out/.existing.txt | head -10 >>$log
git checkout -q -- . 
go test -vet=off -count=1 -run "$demo" ./$pkg/ >$out/.demo_without.txt 2>&1; rc_without=$?
tail -3 $out/.demo_without.txt >>$log
echo "RESULT $id: demo_with_patch_exit=$rc_with (want !=0) demo_without_patch_exit=$rc_without (want 0) existing_tests_with_patch_exit=$rc_ex (want 0)" | tee -a $log
cp $src/patch.diff $src/demo_test.go $out/
python3 - "$src/meta.json" "$out/meta.json" "$rc_with" "$rc_without" "$rc_ex" "$demo" "$existing" <<'PY'
import json,sys
m=json.load(open(sys.argv[1]))
m["confirmed_by_coordinator"]={"demo_with_patch_exit":int(sys.argv[3]),"demo_without_patch_exit":int(sys.argv[4]),"existing_subset_with_patch_exit":int(sys.argv[5]),
  "commands":["git apply patch.diff (scratch worktree of /repo HEAD)","go build <all non-main packages>","go test -vet=off -count=1 -run '%s' ./$pkg/ (with and without the patch; package given on the command line)"%sys.argv[6],"go test -vet=off -count=1 -run '%s' ./$pkg/ (with the patch)"%sys.argv[7]]}
json.dump(m,open(sys.argv[2],"w"),indent=1)
PY
rm -f $out/.demo_with.txt $out/.demo_without.txt $out/.existing.txt
cd /; git -C /repo worktree remove --force $wt
